/-
  "When the preconditions hold the operation is carried out" (C18): the admin commands evaluated on
  the answers of a device whose state meets the preconditions.  `Runs m w a e w'` — in world `w`
  the computation returns `a`, emits exactly the events `e` and leaves world `w'`.
-/
import PowHsm.Admin.Commands
import PowHsm.Proofs.Monad
namespace PowHsm
open M Dongle Ledger Generated Tbl Admin

def Runs (m : M α) (w : World) (a : α) (e : List Ev) (w' : World) : Prop := m w = ⟨.ok a, e, w'⟩

namespace Runs

theorem pure (a : α) (w : World) : Runs (Pure.pure a : M α) w a [] w := rfl

theorem bind {m : M α} {f : α → M β} {w w1 w2 : World} {a : α} {b : β} {e1 e2 : List Ev}
    (h1 : Runs m w a e1 w1) (h2 : Runs (f a) w1 b e2 w2) : Runs (m >>= f) w b (e1 ++ e2) w2 := by
  unfold Runs at *
  rw [M.bind_ok h1, h2]

theorem emit (e : Ev) (w : World) : Runs (M.emit e) w () [e] w := rfl

end Runs

theorem sendCommand_runs (c : UInt8) (d : Bytes) {w : World} {r : Bytes} {rest : List Resp}
    (h : w.script = .data r :: rest) :
    Runs (sendCommand c d) w r [.apdu (Dongle.CLA :: c :: d)] { w with script := rest } := by
  unfold Runs sendCommand exchange
  simp [h, classify]

theorem idx_runs {b : Bytes} {i : Nat} {x : UInt8} (w : World) (h : b[i]? = some x) : Runs (idx b i) w x [] w := by
  unfold Runs idx; rw [h]; rfl

theorem connect_runs (w : World) (h : w.conns = []) : Runs connect w () [.connect true] w := by
  unfold Runs connect
  simp [h]

theorem getCurrentMode_runs {w : World} {m : UInt8} {rest : List Resp}
    (h : w.script = .data [0x80, m] :: rest) (hm : m.toNat = 2 ∨ m.toNat = 3 ∨ m.toNat = 4) :
    Runs getCurrentMode w m.toNat [.apdu [Dongle.CLA, u8 Command_GET_MODE]] { w with script := rest } := by
  have hcont : (enumMode.map (·.2)).contains (Int.ofNat m.toNat) = true := by
    rcases hm with h | h | h <;> rw [h] <;> decide
  unfold Runs getCurrentMode M.tryCatchIf
  rw [M.bind_ok (sendCommand_runs (u8 Command_GET_MODE) [] h)]
  try dsimp only
  rw [M.bind_ok (idx_runs (b := [0x80, m]) (i := 1) { w with script := rest } rfl)]
  try dsimp only
  rw [if_pos hcont]
  rfl

theorem echo_runs {w : World} {rest : List Resp}
    (h : w.script = .data [0x80, 0x02, 0x41, 0x42, 0x43] :: rest) :
    Runs echo w true [.apdu [Dongle.CLA, u8 Command_ECHO, 0x41, 0x42, 0x43]] { w with script := rest } := by
  have hb : (([0x80, 0x02, 0x41, 0x42, 0x43] : Bytes) == Dongle.CLA :: u8 Command_ECHO :: [0x41, 0x42, 0x43]) = true := by
    decide
  unfold Runs echo
  try dsimp only
  rw [M.bind_ok (sendCommand_runs (u8 Command_ECHO) [0x41, 0x42, 0x43] h)]
  try dsimp only
  rw [hb]
  rfl

theorem platEcho_runs {w : World} {rest : List Resp} (hplat : w.platform ≠ .sgx)
    (h : w.script = Resp.data [0x80, 0x02, 0x41, 0x42, 0x43] :: rest) :
    Runs platEcho w true [.apdu [Dongle.CLA, u8 Command_ECHO, 0x41, 0x42, 0x43]] { w with script := rest } := by
  have he := echo_runs h
  unfold Runs at he ⊢
  unfold platEcho
  rw [M.bind_apply]
  simp only [getWorld]
  cases hpf : w.platform with
  | sgx => exact absurd hpf hplat
  | ledger => simp [hpf, he]
  | tcp => simp [hpf, he]

theorem isOnboarded_runs {w : World} {o a b c : UInt8} {rest : List Resp}
    (h : w.script = .data [0x80, o, a, b, c] :: rest) :
    Runs isOnboarded w (o == 1) [.apdu [Dongle.CLA, u8 Command_IS_ONBOARD]] { w with script := rest } := by
  unfold Runs isOnboarded
  rw [M.bind_ok (sendCommand_runs (u8 Command_IS_ONBOARD) [] h)]
  try dsimp only
  rw [M.bind_ok (idx_runs (b := [0x80, o, a, b, c]) (i := 1) { w with script := rest } rfl)]
  rfl

/-- the messages that carry the seed: one per byte, with its index -/
def seedMsgs : Nat → Bytes → List Ev
  | _, [] => []
  | i, b :: bs => .apdu [Dongle.CLA, u8 Command_SEED, UInt8.ofNat i, b] :: seedMsgs (i + 1) bs

theorem sendSeed_runs (bs : Bytes) : ∀ (i : Nat) (w : World) (acks : List Bytes) (rest : List Resp),
    acks.length = bs.length → w.script = acks.map Resp.data ++ rest →
    Runs (onboardDevice.sendSeed i bs) w () (seedMsgs i bs) { w with script := rest } := by
  induction bs with
  | nil =>
    intro i w acks rest hl hs
    cases acks with
    | nil =>
      simp only [List.map_nil, List.nil_append] at hs
      unfold onboardDevice.sendSeed
      have : ({ w with script := rest } : World) = w := by cases w; simp_all
      rw [this]
      exact Runs.pure _ _
    | cons a as => simp at hl
  | cons b bs ih =>
    intro i w acks rest hl hs
    cases acks with
    | nil => simp at hl
    | cons a as =>
      simp only [List.map_cons, List.cons_append] at hs
      have h2 := ih (i + 1) { w with script := as.map Resp.data ++ rest } as rest (by simpa using hl) rfl
      unfold Runs at h2 ⊢
      unfold onboardDevice.sendSeed
      rw [M.bind_ok (sendCommand_runs (u8 Command_SEED) [UInt8.ofNat i, b] hs)]
      try dsimp only
      rw [h2]
      rfl

/-- the messages that carry the PIN: one per byte, with its index -/
def pinMsgs : Nat → Bytes → List Ev
  | _, [] => []
  | i, b :: bs => .apdu [Dongle.CLA, u8 Command_SEND_PIN, UInt8.ofNat i, b] :: pinMsgs (i + 1) bs

theorem sendPin_go_runs (bs : Bytes) : ∀ (i : Nat) (w : World) (acks : List Bytes) (rest : List Resp),
    acks.length = bs.length → w.script = acks.map Resp.data ++ rest →
    Runs (sendPin.go i bs) w () (pinMsgs i bs) { w with script := rest } := by
  induction bs with
  | nil =>
    intro i w acks rest hl hs
    cases acks with
    | nil =>
      simp only [List.map_nil, List.nil_append] at hs
      unfold sendPin.go
      have : ({ w with script := rest } : World) = w := by cases w; simp_all
      rw [this]
      exact Runs.pure _ _
    | cons a as => simp at hl
  | cons b bs ih =>
    intro i w acks rest hl hs
    cases acks with
    | nil => simp at hl
    | cons a as =>
      simp only [List.map_cons, List.cons_append] at hs
      have h2 := ih (i + 1) { w with script := as.map Resp.data ++ rest } as rest (by simpa using hl) rfl
      unfold Runs at h2 ⊢
      unfold sendPin.go
      rw [M.bind_ok (sendCommand_runs (u8 Command_SEND_PIN) [UInt8.ofNat i, b] hs)]
      try dsimp only
      rw [h2]
      rfl

/-- the destructive part of onboarding on a Ledger: the 32 seed bytes, the length-prefixed PIN, the wipe -/
theorem onboardDevice_runs {w : World} (seed pin : Bytes) (sacks packs : List Bytes) {x : UInt8} {tl : Bytes}
    {rest : List Resp} (hplat : w.platform ≠ .sgx) (hseed : seed.length = 32)
    (hsl : sacks.length = seed.length) (hpl : packs.length = pin.length + 1)
    (h : w.script = sacks.map Resp.data ++ (packs.map Resp.data ++ Resp.data (x :: 2 :: tl) :: rest)) :
    Runs (onboardDevice seed pin) w ()
      (seedMsgs 0 seed ++ (pinMsgs 0 (UInt8.ofNat pin.length :: pin) ++ [.apdu [Dongle.CLA, u8 Command_WIPE]]))
      { w with script := rest } := by
  have hs32 : (seed.length != 32) = false := by simp [hseed]
  have h1 := sendSeed_runs seed 0 w sacks (packs.map Resp.data ++ Resp.data (x :: 2 :: tl) :: rest) hsl h
  have h2 := sendPin_go_runs (UInt8.ofNat pin.length :: pin) 0
    { w with script := packs.map Resp.data ++ Resp.data (x :: 2 :: tl) :: rest } packs
    (Resp.data (x :: 2 :: tl) :: rest) (by simpa using hpl) rfl
  have h3 := sendCommand_runs (w := { w with script := Resp.data (x :: 2 :: tl) :: rest })
    (u8 Command_WIPE) [] (r := x :: 2 :: tl) (rest := rest) rfl
  have hcore : (do
      onboardDevice.sendSeed 0 seed
      sendPin pin true
      let r ← sendCommand (u8 Command_WIPE)
      let b ← idx r 1
      if b != 2 then M.throw' .dongleError else (Pure.pure () : M Unit)) w = ⟨.ok (),
      seedMsgs 0 seed ++ (pinMsgs 0 (UInt8.ofNat pin.length :: pin) ++ [.apdu [Dongle.CLA, u8 Command_WIPE]]),
      { w with script := rest }⟩ := by
    unfold Runs at h1 h2 h3
    rw [M.bind_ok h1]
    try dsimp only
    unfold sendPin
    simp only [if_true]
    rw [M.bind_ok h2]
    try dsimp only
    rw [M.bind_ok h3]
    try dsimp only
    rw [M.bind_ok (idx_runs (b := x :: 2 :: tl) (i := 1) { w with script := rest } rfl)]
    simp
  unfold Runs onboardDevice
  simp only [hs32, Bool.false_eq_true, if_false]
  rw [M.bind_apply]
  simp only [getWorld]
  cases hpf : w.platform with
  | sgx => exact absurd hpf hplat
  | ledger => rw [hcore]; simp [hpf]
  | tcp => rw [hcore]; simp [hpf]

theorem confirm_runs {w : World} {ans : String} {more : List String} (hin : w.stdinLines = ans :: more)
    (hyes : (rstrip ans).toLower = "yes") : Runs confirm w () [] { w with stdinLines := more } := by
  unfold Runs confirm
  rw [hin]
  have : confirm.go (ans :: more) = some (true, more) := by
    unfold confirm.go
    simp [hyes]
  rw [this]

/-- the device checks of onboarding pass on a Ledger in bootloader mode that echoes and is not onboarded -/
theorem onboardChecks_runs {w : World} {a b c : UInt8} {rest : List Resp} (hplat : w.platform ≠ .sgx)
    (hc : w.conns = [])
    (h : w.script = Resp.data [0x80, 2] :: Resp.data [0x80, 0x02, 0x41, 0x42, 0x43] ::
          Resp.data [0x80, 0, a, b, c] :: rest) :
    Runs onboardChecks w (2, true, false)
      [.connect true, .apdu [Dongle.CLA, u8 Command_GET_MODE], .apdu [Dongle.CLA, u8 Command_ECHO, 0x41, 0x42, 0x43],
       .apdu [Dongle.CLA, u8 Command_IS_ONBOARD]] { w with script := rest } := by
  have h1 := connect_runs w hc
  have h2 := getCurrentMode_runs (m := 2) h (by decide)
  have h3 := platEcho_runs (w := { w with script := (Resp.data [0x80, 0x02, 0x41, 0x42, 0x43] ::
    Resp.data [0x80, 0, a, b, c] :: rest) }) (rest := Resp.data [0x80, 0, a, b, c] :: rest) hplat rfl
  have h4 := isOnboarded_runs (w := { w with script := Resp.data [0x80, 0, a, b, c] :: rest }) (o := 0) (rest := rest) rfl
  unfold Runs at h1 h2 h3 h4 ⊢
  unfold onboardChecks getHsm
  rw [M.bind_ok h1]
  try dsimp only
  rw [M.bind_ok h2]
  have hm : ((2 : UInt8).toNat != Mode_BOOTLOADER.toNat) = false := by decide
  simp only [hm, Bool.false_eq_true, if_false]
  rw [M.bind_ok h3]
  simp only [Bool.not_true, Bool.false_eq_true, if_false]
  rw [M.bind_ok h4]
  have h0 : ((0 : UInt8) == 1) = false := by decide
  simp only [h0, Bool.false_eq_true, if_false]
  rfl

/-- **when the preconditions hold, onboarding is carried out** (Ledger): a device in bootloader
    mode that echoes correctly and is not yet onboarded, an operator who answers yes, a
    policy-compliant PIN given as an option — the device is sent exactly the 32 bytes the random
    source produced as seed (one message per byte, in order), the length-prefixed PIN and the wipe
    command, after the checks and nothing else, and the command ends normally -/
theorem doOnboard_runs {w : World} (o : Options) (p ans : String) (more : List String)
    (sacks packs : List Bytes) {a b c x : UInt8} {tl : Bytes} {rest : List Resp}
    (ho : o.pin = some p) (hv : pinValid (utf8 p) false = true)
    (hplat : w.platform = .ledger) (hout : o.hasOutput = true) (hc : w.conns = [])
    (hin : w.stdinLines = ans :: more) (hyes : (rstrip ans).toLower = "yes")
    (hseed : w.seed.length = 32) (hsl : sacks.length = w.seed.length) (hpl : packs.length = (utf8 p).length + 1)
    (h : w.script = Resp.data [0x80, 2] :: Resp.data [0x80, 0x02, 0x41, 0x42, 0x43] ::
          Resp.data [0x80, 0, a, b, c] ::
          (sacks.map Resp.data ++ (packs.map Resp.data ++ Resp.data (x :: 2 :: tl) :: rest))) :
    Runs (doOnboard o) w ()
      ([.connect true, .apdu [Dongle.CLA, u8 Command_GET_MODE], .apdu [Dongle.CLA, u8 Command_ECHO, 0x41, 0x42, 0x43],
        .apdu [Dongle.CLA, u8 Command_IS_ONBOARD]] ++
       (seedMsgs 0 w.seed ++ (pinMsgs 0 (UInt8.ofNat (utf8 p).length :: utf8 p) ++
         [.apdu [Dongle.CLA, u8 Command_WIPE]])) ++ [.disconnect])
      { w with script := rest, stdinLines := more } := by
  have hns : w.platform ≠ .sgx := by rw [hplat]; decide
  have h1 := onboardChecks_runs (w := w) hns hc h
  have h2 := confirm_runs (w := { w with script := (sacks.map Resp.data ++ (packs.map Resp.data ++
    Resp.data (x :: 2 :: tl) :: rest)) }) hin hyes
  have h3 := onboardDevice_runs (w := { w with stdinLines := more, script := (sacks.map Resp.data ++ (packs.map Resp.data ++
    Resp.data (x :: 2 :: tl) :: rest)) }) w.seed (utf8 p) sacks packs (x := x) (tl := tl)
    (rest := rest) hns hseed hsl hpl rfl
  unfold Runs at h1 h2 h3 ⊢
  unfold doOnboard
  rw [M.bind_apply]
  simp only [getWorld, hplat, hout, Bool.not_true, Bool.and_false, Bool.false_eq_true, if_false]
  unfold onboardOptPin
  simp only [ho, hv, if_true]
  rw [M.bind_apply]
  simp only [M.pure_apply]
  unfold onboardCore
  rw [M.bind_ok h1]
  try dsimp only
  rw [M.bind_ok h2]
  try dsimp only
  unfold onboardPin
  simp only
  rw [M.bind_apply]
  simp only [M.pure_apply]
  rw [M.bind_apply]
  simp only [getWorld]
  rw [M.bind_ok h3]
  unfold disposeHsm disconnect M.emit
  simp [hplat]

end PowHsm
