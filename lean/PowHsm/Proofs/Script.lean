/-
  Helper lemmas about `Btc.iterScript` / `Btc.clearScript` (used by Props/C14).
-/
import PowHsm.Btc.Tx
namespace PowHsm
namespace Btc

/-- what an element looks like after one decode/encode cycle: an empty push is `OP_0` -/
def canon : Elem → Elem
  | .push [] => .zero
  | e => e

/-- elements as `iterScript` yields them -/
def Elem.WF : Elem → Prop
  | .zero => True
  | .push d => d.length < 2 ^ 32
  | .op c => c.toNat > 0x4e

theorem iterScript_fuel (f1 : Nat) : ∀ (f2 : Nat) (s : Bytes), s.length ≤ f1 → s.length ≤ f2 →
    iterScript f1 s = iterScript f2 s := by
  induction f1 with
  | zero =>
    intro f2 s h1 _
    have : s = [] := List.eq_nil_of_length_eq_zero (by omega)
    subst this
    cases f2 <;> rfl
  | succ f1 ih =>
    intro f2 s h1 h2
    cases s with
    | nil => cases f2 <;> rfl
    | cons c rest =>
      cases f2 with
      | zero => simp at h2
      | succ f2 =>
        simp only [List.length_cons] at h1 h2
        have hA : iterScript f1 rest = iterScript f2 rest := ih f2 rest (by omega) (by omega)
        have hB : ∀ m n, iterScript f1 ((rest.drop m).drop n) = iterScript f2 ((rest.drop m).drop n) := by
          intro m n
          exact ih f2 _ (by simp only [List.length_drop]; omega) (by simp only [List.length_drop]; omega)
        simp only [iterScript, hA, hB]

theorem elems_cons_zero (s : Bytes) : elems (0 :: s) = (elems s).map (Elem.zero :: ·) := by
  unfold elems
  simp only [List.length_cons, iterScript]
  have h2 : (0 : UInt8).toNat = 0 := by decide
  simp [h2]

theorem elems_zeros (k : Nat) (s : Bytes) :
    elems (List.replicate k (0 : UInt8) ++ s) = (elems s).map (List.replicate k Elem.zero ++ ·) := by
  induction k with
  | zero => simp
  | succ k ih =>
    rw [List.replicate_succ, List.cons_append, elems_cons_zero, ih]
    cases elems s <;> simp [List.replicate_succ]

@[simp] theorem iterScript_nil (f : Nat) : iterScript f [] = some [] := by cases f <;> rfl

theorem ofNat_toNat {n : Nat} (h : n < 256) : (UInt8.ofNat n).toNat = n := by
  simp [UInt8.toNat_ofNat']; omega

theorem elems_pushData (d : Bytes) (h : d.length < 2 ^ 32) : elems (pushData d) = some [canon (.push d)] := by
  unfold pushData
  by_cases h1 : d.length < 0x4c
  · simp only [h1, if_true]
    cases d with
    | nil => simp [elems, iterScript, canon]
    | cons x xs =>
      have hc : (UInt8.ofNat (x :: xs).length).toNat = (x :: xs).length := ofNat_toNat (by omega)
      simp only [List.length_cons] at h1 hc
      simp only [elems, List.length_cons, iterScript, hc, canon]
      have a1 : ¬ (xs.length + 1 > 78) := by omega
      have a2 : ¬ (xs.length + 1 = 0) := by omega
      have a3 : xs.length + 1 < 76 := h1
      simp [a1, a3]
  · simp only [h1, if_false]
    have hne : d ≠ [] := by intro hd; subst hd; simp at h1
    have hcanon : canon (.push d) = .push d := by cases d with | nil => exact absurd rfl hne | cons _ _ => rfl
    rw [hcanon]
    by_cases h2 : d.length ≤ 0xff
    · simp only [h2, if_true]
      have hc : (UInt8.ofNat d.length).toNat = d.length := ofNat_toNat (by omega)
      have c1 : (0x4c : UInt8).toNat = 76 := by decide
      simp only [elems, List.length_cons, iterScript, c1]
      simp [Bytes.leVal, hc]
    · simp only [h2, if_false]
      by_cases h3 : d.length ≤ 0xffff
      · simp only [h3, if_true]
        have c1 : (0x4d : UInt8).toNat = 77 := by decide
        have hv : Bytes.leVal (Bytes.le 2 d.length) = d.length := Bytes.leVal_le_of_lt (by omega)
        simp only [elems, List.length_cons, iterScript, c1]
        simp [hv]
      · simp only [h3, if_false]
        have c1 : (0x4e : UInt8).toNat = 78 := by decide
        have hv : Bytes.leVal (Bytes.le 4 d.length) = d.length := Bytes.leVal_le_of_lt (by simpa using h)
        simp only [elems, List.length_cons, iterScript, c1]
        simp [hv]

theorem elems_encode (e : Elem) (h : e.WF) : elems e.encode = some [canon e] := by
  cases e with
  | zero => simp [Elem.encode, elems, iterScript, canon]
  | push d => exact elems_pushData d h
  | op c =>
    have hc : c.toNat > 78 := h
    simp [Elem.encode, elems, iterScript, canon, hc]

theorem leVal_lt (b : Bytes) : Bytes.leVal b < 256 ^ b.length := by
  induction b with
  | nil => simp [Bytes.leVal]
  | cons x xs ih =>
    simp only [Bytes.leVal, List.length_cons, Nat.pow_succ]
    have := x.toNat_lt
    omega

theorem iterScript_wf (f : Nat) : ∀ (s : Bytes) (ops : List Elem), iterScript f s = some ops → ∀ e ∈ ops, e.WF := by
  induction f with
  | zero =>
    intro s ops h
    cases s with
    | nil => simp [iterScript] at h; subst h; simp
    | cons _ _ => simp [iterScript] at h
  | succ f ih =>
    intro s ops h
    cases s with
    | nil => simp at h; subst h; simp
    | cons c rest =>
      simp only [iterScript] at h
      generalize hlb : (if c.toNat < 76 then 0 else if c.toNat = 76 then 1 else if c.toNat = 77 then 2 else 4) = lb at h
      generalize hn : (if c.toNat < 76 then c.toNat else Bytes.leVal (List.take lb rest)) = n at h
      have hlb4 : lb ≤ 4 := by rw [← hlb]; split <;> (try split) <;> (try split) <;> omega
      have hn' : n < 2 ^ 32 := by
        rw [← hn]
        split
        · omega
        · have h1 := leVal_lt (List.take lb rest)
          have hl : (List.take lb rest).length ≤ 4 := by simp only [List.length_take]; omega
          have : (256:Nat) ^ (List.take lb rest).length ≤ 256 ^ 4 := Nat.pow_le_pow_right (by omega) hl
          omega
      by_cases hc : c.toNat > 78
      · simp only [hc, if_true] at h
        cases hr : iterScript f rest with
        | none => simp [hr] at h
        | some r =>
          simp [hr] at h; subst h
          intro e he
          rcases List.mem_cons.mp he with rfl | he
          · exact hc
          · exact ih rest r hr e he
      · simp only [hc, if_false] at h
        by_cases hz : c.toNat = 0
        · simp only [hz, if_true] at h
          cases hr : iterScript f rest with
          | none => simp [hr] at h
          | some r =>
            simp [hr] at h; subst h
            intro e he
            rcases List.mem_cons.mp he with rfl | he
            · trivial
            · exact ih rest r hr e he
        · simp only [hz, if_false] at h
          by_cases h1 : rest.length < lb
          · rw [if_pos h1] at h; cases h
          · rw [if_neg h1] at h
            by_cases h2 : (List.drop lb rest).length < n
            · rw [if_pos h2] at h; cases h
            · rw [if_neg h2] at h
              cases hr : iterScript f (List.drop n (List.drop lb rest)) with
              | none => rw [hr] at h; cases h
              | some r =>
                rw [hr] at h
                simp only [Option.map] at h
                injection h with h
                subst h
                intro e he
                rcases List.mem_cons.mp he with rfl | he
                · show (List.take n (List.drop lb rest)).length < 2 ^ 32
                  simp only [List.length_take]; omega
                · exact ih _ r hr e he

def sizeSum (ops : List Elem) : Nat := (ops.map fun e => e.encode.length).sum

theorem pushData_length_le (d : Bytes) :
    (pushData d).length ≤ 5 + d.length ∧
    (d.length ≤ 0xffff → (pushData d).length ≤ 3 + d.length) ∧
    (d.length ≤ 0xff → (pushData d).length ≤ 2 + d.length) ∧
    (d.length < 0x4c → (pushData d).length ≤ 1 + d.length) := by
  unfold pushData
  split
  · simp; omega
  · split
    · simp; omega
    · split
      · simp; omega
      · simp; omega

theorem encode_length_pos (e : Elem) : 1 ≤ e.encode.length := by
  cases e with
  | zero => simp [Elem.encode]
  | op c => simp [Elem.encode]
  | push d =>
    simp only [Elem.encode, pushData]
    split <;> (try split) <;> (try split) <;> simp

/-- the canonical re-encoding of the operations of a script is never longer than the script -/
theorem iterScript_size (f : Nat) : ∀ (s : Bytes) (ops : List Elem), iterScript f s = some ops →
    sizeSum ops ≤ s.length := by
  induction f with
  | zero =>
    intro s ops h
    cases s with
    | nil => simp [iterScript] at h; subst h; simp [sizeSum]
    | cons _ _ => simp [iterScript] at h
  | succ f ih =>
    intro s ops h
    cases s with
    | nil => simp at h; subst h; simp [sizeSum]
    | cons c rest =>
      simp only [iterScript] at h
      generalize hlb : (if c.toNat < 76 then 0 else if c.toNat = 76 then 1 else if c.toNat = 77 then 2 else 4) = lb at h
      generalize hn : (if c.toNat < 76 then c.toNat else Bytes.leVal (List.take lb rest)) = n at h
      by_cases hc : c.toNat > 78
      · simp only [hc, if_true] at h
        cases hr : iterScript f rest with
        | none => simp [hr] at h
        | some r =>
          simp [hr] at h; subst h
          have := ih rest r hr
          simp only [sizeSum, List.map_cons, List.sum_cons, Elem.encode, List.length_cons, List.length_nil] at this ⊢
          omega
      · simp only [hc, if_false] at h
        by_cases hz : c.toNat = 0
        · simp only [hz, if_true] at h
          cases hr : iterScript f rest with
          | none => simp [hr] at h
          | some r =>
            simp [hr] at h; subst h
            have := ih rest r hr
            simp only [sizeSum, List.map_cons, List.sum_cons, Elem.encode, List.length_cons, List.length_nil] at this ⊢
            omega
        · simp only [hz, if_false] at h
          by_cases h1 : rest.length < lb
          · rw [if_pos h1] at h; cases h
          · rw [if_neg h1] at h
            by_cases h2 : (List.drop lb rest).length < n
            · rw [if_pos h2] at h; cases h
            · rw [if_neg h2] at h
              cases hr : iterScript f (List.drop n (List.drop lb rest)) with
              | none => rw [hr] at h; cases h
              | some r =>
                rw [hr] at h
                simp only [Option.map] at h
                injection h with h
                subst h
                have hrest := ih _ r hr
                simp only [List.length_drop] at hrest h2
                have hd : (List.take n (List.drop lb rest)).length = n := by
                  simp only [List.length_take, List.length_drop]; omega
                obtain ⟨p5, p3, p2, p1⟩ := pushData_length_le (List.take n (List.drop lb rest))
                rw [hd] at p5 p3 p2 p1
                have hbound : (pushData (List.take n (List.drop lb rest))).length ≤ 1 + lb + n := by
                  by_cases c1 : c.toNat < 76
                  · simp only [c1, if_true] at hlb hn
                    have := p1 (by omega); omega
                  · simp only [c1, if_false] at hlb hn
                    have hv := leVal_lt (List.take lb rest)
                    have hl : (List.take lb rest).length = lb := by simp only [List.length_take]; omega
                    rw [hl, hn] at hv
                    by_cases c2 : c.toNat = 76
                    · simp only [c2, if_true] at hlb
                      subst hlb
                      have := p2 (by omega); omega
                    · simp only [c2, if_false] at hlb
                      by_cases c3 : c.toNat = 77
                      · simp only [c3, if_true] at hlb
                        subst hlb
                        have := p3 (by omega); omega
                      · simp only [c3, if_false] at hlb
                        subst hlb
                        omega
                simp only [sizeSum, List.map_cons, List.sum_cons, Elem.encode, List.length_cons] at hrest ⊢
                omega

theorem elems_wf (s : Bytes) (ops : List Elem) (h : elems s = some ops) : ∀ e ∈ ops, e.WF :=
  iterScript_wf _ s ops h

theorem sizeSum_ge_length (ops : List Elem) : ops.length ≤ sizeSum ops := by
  induction ops with
  | nil => simp [sizeSum]
  | cons e es ih =>
    have := encode_length_pos e
    simp only [sizeSum, List.map_cons, List.sum_cons, List.length_cons] at ih ⊢
    omega

theorem sizeSum_append (a b : List Elem) : sizeSum (a ++ b) = sizeSum a + sizeSum b := by
  simp [sizeSum, List.sum_append]

/-- the cleared script is never longer than the original -/
theorem clearScript_length_le (s s' : Bytes) (h : clearScript s = some s') : s'.length ≤ s.length := by
  unfold clearScript at h
  cases he : elems s with
  | none => simp [he] at h
  | some ops =>
    cases hl : ops.getLast? with
    | none => simp [he, hl] at h
    | some l =>
      simp [he, hl] at h
      subst h
      have hsz := iterScript_size _ s ops he
      have hsplit : ops = ops.dropLast ++ [l] := by
        have hne : ops ≠ [] := by intro h0; subst h0; simp at hl
        have h1 := List.dropLast_concat_getLast hne
        have h2 : ops.getLast hne = l := by
          have := List.getLast?_eq_some_getLast hne
          rw [hl] at this
          exact (Option.some.inj this).symm
        rw [h2] at h1
        exact h1.symm
      have h1 : sizeSum ops = sizeSum ops.dropLast + l.encode.length := by
        conv => lhs; rw [hsplit]
        rw [sizeSum_append]
        simp [sizeSum]
      have h2 := sizeSum_ge_length ops.dropLast
      simp only [List.length_dropLast] at h2
      simp only [List.length_append, List.length_replicate]
      omega

end Btc
end PowHsm
