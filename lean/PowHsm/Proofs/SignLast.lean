/-
  "…and then carries exactly the r and s of the DER signature the device returned" (C01): a signature
  returned by `sign_authorized` / `sign_unauthorized` is parsed from the device's answer to the LAST
  message sent, and that answer names the SUCCESS operation.
-/
import PowHsm.Proofs.Sign
import PowHsm.Proofs.ConformTracks
namespace PowHsm
open M Dongle Generated Tbl

/-- the device's answer to the last APDU among `evs` (one script entry per APDU) -/
def lastAnswer (script : List Resp) (evs : List Ev) : Option Resp :=
  match (apdus evs).length with
  | 0 => none
  | n + 1 => script[n]?

theorem lastAnswer_append (s : List Resp) (e1 e2 : List Ev) (h : 0 < (apdus e2).length) :
    lastAnswer s (e1 ++ e2) = lastAnswer (s.drop (apdus e1).length) e2 := by
  unfold lastAnswer
  rw [apdus_append, List.length_append]
  cases h2 : (apdus e2).length with
  | zero => omega
  | succ n =>
    have : (apdus e1).length + (n + 1) = ((apdus e1).length + n) + 1 := by omega
    rw [this]
    simp [List.getElem?_drop]

/-- a signature returned by `k` comes out of the device's answer to `k`'s last message, and that
    answer names the SUCCESS operation -/
def SigFromLast (k : M SignOut) : Prop :=
  ∀ w r s, (k w).val = .ok (.sig r s) →
    ∃ resp, lastAnswer w.script (k w).evs = some (.data resp) ∧ resp[2]? = some OP_SUCCESS ∧
      Der.parse (resp.drop 3) = some (r, s)

namespace Dongle

theorem sendChunksAux_last (cmd op : UInt8) (nexts : List UInt8) (data : Bytes) (full : Bool)
    (s : List Resp) : ∀ (offset req : Nat) (b : Bool) (resp : Bytes),
    (sendChunksAux cmd op nexts data full offset req s).1 = .ok (b, resp) →
    ∃ n, (sendChunksAux cmd op nexts data full offset req s).2.1.length = n + 1 ∧ s[n]? = some (.data resp) := by
  induction s with
  | nil => intro offset req b resp h; simp [sendChunksAux] at h
  | cons r rest ih =>
    intro offset req b resp
    unfold sendChunksAux
    dsimp only
    cases r with
    | data d =>
      simp only [classify]
      repeat' split
      all_goals first
        | (intro h; simp at h; done)
        | (intro h
           simp only [Except.ok.injEq, Prod.mk.injEq] at h
           obtain ⟨_, h2⟩ := h
           subst h2
           exact ⟨0, by simp, by simp⟩)
        | skip
      rename_i n _
      intro h
      obtain ⟨k, hk1, hk2⟩ := ih _ _ b resp h
      exact ⟨k + 1, by simp [hk1], by simpa using hk2⟩
    | sw x =>
      simp only [classify]
      by_cases hu : isUserDefined x = true <;> simp [hu]
    | timeout => simp [classify]
    | writeErr => simp [classify]
    | readErr => simp [classify]
    | other => simp [classify]

theorem sendChunks_last (cmd op : UInt8) (nexts : List UInt8) (data : Bytes) (full : Bool) (init : Nat)
    (w : World) (b : Bool) (resp : Bytes) (h : (sendChunks cmd op nexts data full init w).val = .ok (b, resp)) :
    lastAnswer w.script (sendChunks cmd op nexts data full init w).evs = some (.data resp) := by
  rw [sendChunks_apply] at h ⊢
  simp only at h ⊢
  obtain ⟨n, h1, h2⟩ := sendChunksAux_last cmd op nexts data full w.script 0 init b resp h
  unfold lastAnswer
  rw [apdus_map_apdu, h1]
  exact h2

end Dongle

open Dongle

/-- the last step of an authorized signature -/
theorem signTail4_sigFromLast (pp : Bytes) (req3 : Nat) : SigFromLast (signTail4 pp req3) := by
  intro w r s h
  unfold signTail4 at h ⊢
  obtain ⟨st, e1, w1, hstep, hrest, hev, _⟩ := M.bind_ok_inv h
  cases st with
  | error c => simp [orFail] at hrest
  | ok resp =>
    rw [hev]
    simp only [orFail, M.pure_apply, List.append_nil] at hrest ⊢
    injection hrest with hrest
    -- the chunked step returned `resp`: it is what sendChunks returned, with success
    unfold chunkStep catchResult M.tryCatchIf at hstep
    rw [M.bind_apply] at hstep
    cases hsc : sendChunks CMD_SIGN OP_MERKLE_PROOF [OP_SUCCESS] pp true req3 w with
    | mk v ev wv =>
      rw [hsc] at hstep
      cases v with
      | error ex =>
        simp only at hstep
        cases ex <;> simp [M.throw'] at hstep
      | ok p =>
        obtain ⟨okb, rsp⟩ := p
        simp only at hstep
        cases okb with
        | false => simp at hstep
        | true =>
          simp only [Bool.not_true, Bool.false_eq_true, if_false, M.pure_apply, List.append_nil] at hstep
          injection hstep with hv he hw
          injection hv with hv
          injection hv with hv
          subst hv
          have hlast := sendChunks_last CMD_SIGN OP_MERKLE_PROOF [OP_SUCCESS] pp true req3 w true rsp (by rw [hsc])
          rw [hsc] at hlast
          simp only at hlast
          have hok := sendChunksAux_ok CMD_SIGN OP_MERKLE_PROOF [OP_SUCCESS] pp true w.script 0 req3 rsp (by
            have := congrArg Res.val hsc
            rw [sendChunks_apply] at this
            exact this)
          obtain ⟨⟨rop, hr1, hr2, _⟩, _⟩ := hok
          have hrop : rop = OP_SUCCESS := by simpa using hr2
          subst hrop
          refine ⟨rsp, by rw [← he]; exact hlast, hr1, ?_⟩
          unfold sigOfResponse at hrest
          cases hd : Der.parse (rsp.drop 3) with
          | none => rw [hd] at hrest; cases hrest
          | some rs =>
            rw [hd] at hrest
            obtain ⟨r', s'⟩ := rs
            simp only [SignOut.sig.injEq] at hrest
            rw [hrest.1, hrest.2]

/-- a step followed by a continuation that has the property, when the step consumes one script entry
    per message: the whole has the property -/
theorem sigFromLast_step {β : Type} (m : M (Except Int β)) (k : β → M SignOut) (ht : Tracks m)
    (hk : ∀ x, SigFromLast (k x)) : SigFromLast (m >>= fun s => orFail s k) := by
  intro w r s h
  rcases step_then m k w with ⟨_, h1⟩ | ⟨x, hx, h2, h2'⟩
  · exact absurd h (h1 r s)
  · rw [h2'] at h
    obtain ⟨resp, hl, hr, hd⟩ := hk x (m w).w r s h
    refine ⟨resp, ?_, hr, hd⟩
    rw [h2]
    have hpos : 0 < (apdus (k x (m w).w).evs).length := by
      unfold lastAnswer at hl
      cases hn : (apdus (k x (m w).w).evs).length with
      | zero => rw [hn] at hl; cases hl
      | succ n => omega
    rw [lastAnswer_append _ _ _ hpos, ← ht w]
    exact hl

theorem signAuthorized_sigFromLast (a : SignAuthArgs) : SigFromLast (signAuthorized a) := by
  have h4 : ∀ pp req, SigFromLast (signTail4 pp req) := signTail4_sigFromLast
  have hp : ∀ req, SigFromLast (signProof a req) := by
    intro req
    unfold signProof
    split
    · intro w r s h; simp at h
    · exact h4 _ _
  have h3 : ∀ req, SigFromLast (signTail3 a req) := by
    intro req
    unfold signTail3
    exact sigFromLast_step _ _ (chunkStep_tracks _ _ _ _ _ _ nextSize_tracks) hp
  have h2 : ∀ req, SigFromLast (signTail2 a req) := by
    intro req
    unfold signTail2
    split
    · intro w r s h; simp at h
    · exact sigFromLast_step _ _ (chunkStep_tracks _ _ _ _ _ _ nextSize_tracks) h3
  unfold signAuthorized
  split
  · intro w r s h; simp [M.throw'] at h
  · exact sigFromLast_step _ _ (signStep1_tracks a) h2

end PowHsm
