/-
  Which result codes each command handler of the model can answer with — whatever the request
  and whatever the device does (no hypothesis on the script): used by Props/C04.
-/
import PowHsm.Proofs.Monad
import PowHsm.Ledger.Protocol
namespace PowHsm
open M Dongle Ledger Generated Tbl Comm

namespace Ledger

/-- every value `m` can return carries a code from `S` -/
abbrev CodesIn (S : List Int) (m : M Out) : Prop := M.Returns (fun o => o.1 ∈ S) m

theorem dictGet_mem' [BEq α] (d : List (α × β)) (k : α) (dflt : β) :
    dictGet d k dflt ∈ dflt :: d.map (·.2) := by
  unfold dictGet
  split
  · rename_i p hp
    exact List.mem_cons_of_mem _ (List.mem_map_of_mem (List.mem_of_find?_eq_some hp))
  · exact List.mem_cons_self

theorem CodesIn.mono {S T : List Int} {m : M Out} (h : CodesIn S m) (hst : ∀ x ∈ S, x ∈ T) : CodesIn T m :=
  M.returns_mono h fun o ho => hst _ ho

theorem deviceGuard_codes (c : Codes) (wr : Bool) {m : M Out} {S : List Int} (hm : CodesIn S m) :
    CodesIn (c.device :: S) (deviceGuard c wr m) := by
  unfold deviceGuard
  refine M.returns_tryCatchIf _ _ _ (hm.mono fun x hx => List.mem_cons_of_mem _ hx) fun e => ?_
  dsimp only
  split
  · exact M.returns_bind _ _ fun _ => M.returns_pure (by simp)
  · exact M.returns_pure (by simp)

theorem getPubkey_codes (c : Codes) (path : List Nat) :
    CodesIn [0, c.invalidKeyId, c.device] (getPubkey c path) := by
  unfold getPubkey
  refine M.returns_tryCatchIf _ _ _ ?_ fun e => ?_
  · refine M.returns_bind _ _ fun _ => M.returns_bind _ _ fun _ => M.returns_pure ?_
    simp
  · repeat' split
    all_goals first
      | exact M.returns_pure (by simp)
      | exact M.returns_throw _
      | exact M.returns_bind _ _ fun _ => M.returns_pure (by simp)

theorem signReply_mem (translate : List (Int × Int)) (dflt : Int) (r : SignOut) :
    (signReply translate dflt r).1 ∈ 0 :: dflt :: translate.map (·.2) := by
  cases r with
  | sig r s => simp [signReply]
  | fail code =>
    simp only [signReply]
    exact List.mem_cons_of_mem _ (dictGet_mem' translate code dflt)

theorem signGuard_codes (c : Codes) (m : M SignOut) (translate : List (Int × Int)) (dflt : Int) :
    CodesIn (c.device :: 0 :: dflt :: translate.map (·.2)) (signGuard c m (signReply translate dflt)) := by
  unfold signGuard
  refine M.returns_tryCatchIf _ _ _ ?_ fun e => ?_
  · exact M.returns_bind_pure _ _ fun r => List.mem_cons_of_mem _ (signReply_mem translate dflt r)
  · repeat' split
    all_goals first
      | exact M.returns_pure (by simp)
      | exact M.returns_throw _
      | exact M.returns_bind _ _ fun _ => M.returns_pure (by simp)

theorem validateMessage_mem (c : Codes) (req : List (String × Json)) (what : What) :
    validateMessage c req what = 0 ∨ validateMessage c req what = c.invalidMessage := by
  unfold validateMessage
  repeat' split
  all_goals simp

theorem validateAuth_mem (c : Codes) (req : List (String × Json)) (mand : Bool) :
    validateAuth c req mand = 0 ∨ validateAuth c req mand = c.invalidAuth := by
  unfold validateAuth
  repeat' split
  all_goals simp

/-- the codes of an authorized / unauthorized signature in the current protocol -/
def signV5Codes (c : Codes) : List Int :=
  c.invalidMessage :: c.invalidAuth :: c.device :: 0 :: translateSignDefault :: translateSign.map (·.2)

theorem vm_mem (c : Codes) (req : List (String × Json)) (what : What) (h : validateMessage c req what < 0) :
    ((validateMessage c req what, ([] : List (String × Json))) : Out).1 ∈ signV5Codes c := by
  rcases validateMessage_mem c req what with h0 | h0
  · rw [h0] at h; exact absurd h (by decide)
  · simp [h0, signV5Codes]

theorem va_mem (c : Codes) (req : List (String × Json)) (mand : Bool) (h : validateAuth c req mand < 0) :
    ((validateAuth c req mand, ([] : List (String × Json))) : Out).1 ∈ signV5Codes c := by
  rcases validateAuth_mem c req mand with h0 | h0
  · rw [h0] at h; exact absurd h (by decide)
  · simp [h0, signV5Codes]

theorem signV5_codes (c : Codes) (req : List (String × Json)) (path : List Nat) :
    CodesIn (signV5Codes c) (signV5 c req path) := by
  have hsg : ∀ m : M SignOut, CodesIn (signV5Codes c) (signGuard c m (signReply translateSign translateSignDefault)) :=
    fun m => (signGuard_codes c m translateSign translateSignDefault).mono fun x hx => by
      unfold signV5Codes; exact List.mem_cons_of_mem _ (List.mem_cons_of_mem _ hx)
  unfold signV5
  dsimp only
  repeat' split
  all_goals first
    | exact hsg _
    | exact M.returns_pure (vm_mem c req _ (by assumption))
    | exact M.returns_pure (va_mem c req _ (by assumption))
    | exact M.returns_pure (by simp [signV5Codes])

theorem signV1_codes (c : Codes) (req : List (String × Json)) (path : List Nat) :
    CodesIn (c.device :: 0 :: translateSignV1Default :: translateSignV1.map (·.2)) (signV1 c req path) := by
  unfold signV1
  exact signGuard_codes c _ _ _

theorem blockchainState_codes (c : Codes) : CodesIn [c.device, 0] (blockchainState c) := by
  unfold blockchainState
  refine deviceGuard_codes c true ?_
  exact M.returns_bind _ _ fun _ => M.returns_bind _ _ fun _ => M.returns_pure (by simp)

theorem resetAdvance_codes (c : Codes) : CodesIn [c.device, 0] (resetAdvance c) := by
  unfold resetAdvance
  refine deviceGuard_codes c true ?_
  exact M.returns_bind _ _ fun _ => M.returns_bind _ _ fun _ => M.returns_pure (by simp)

theorem blockchainParameters_codes (c : Codes) : CodesIn [c.device, 0] (blockchainParameters c) := by
  unfold blockchainParameters
  refine deviceGuard_codes c true ?_
  exact M.returns_bind _ _ fun _ => M.returns_bind _ _ fun _ => M.returns_pure (by simp)

theorem advance_codes (hs : Hashes) (c : Codes) (req : List (String × Json)) :
    CodesIn (c.device :: translateAdvanceDefault :: translateAdvance.map (·.2)) (advance hs c req) := by
  unfold advance
  refine deviceGuard_codes c false ?_
  refine M.returns_bind _ _ fun _ => ?_
  dsimp only
  exact M.returns_bind _ _ fun r => M.returns_pure (dictGet_mem' _ _ _)

theorem updateAncestorBlock_codes (hs : Hashes) (c : Codes) (req : List (String × Json)) :
    CodesIn (c.device :: translateUpdateDefault :: translateUpdate.map (·.2)) (updateAncestorBlock hs c req) := by
  unfold updateAncestorBlock
  refine deviceGuard_codes c false ?_
  exact M.returns_bind _ _ fun _ => M.returns_bind _ _ fun r => M.returns_pure (dictGet_mem' _ _ _)

theorem hbReply_mem (c : Codes) (h : Option Heartbeat) : (hbReply c h).1 ∈ [c.device, 0] := by
  cases h <;> simp [hbReply]

theorem signerHb_codes (c : Codes) (req : List (String × Json)) : CodesIn [c.device, c.device, 0] (signerHb c req) := by
  unfold signerHb
  refine deviceGuard_codes c false ?_
  exact M.returns_bind _ _ fun _ => M.returns_bind _ _ fun r => M.returns_pure (hbReply_mem c r)

theorem uiHb_codes (c : Codes) (req : List (String × Json)) : CodesIn [c.device, c.device, 0] (uiHb c req) := by
  unfold uiHb
  refine deviceGuard_codes c true ?_
  refine M.returns_bind _ _ fun _ => M.returns_bind _ _ fun initial => ?_
  dsimp only
  split
  · exact M.returns_pure (by simp)
  · -- `go` and `back` produce nothing but the device-error reply
    have hmode : ∀ (k : Nat), M.Returns (fun r : Option Out => ∀ o, r = some o → o.1 ∈ [c.device, 0])
        (do exitAppLenient
            waitAndReconnect
            let m ← getCurrentMode
            if m != k then pure (some (c.device, [])) else pure none) := by
      intro k
      refine M.returns_bind _ _ fun _ => M.returns_bind _ _ fun _ => M.returns_bind _ _ fun m => ?_
      split
      · refine M.returns_pure ?_
        intro o ho; injection ho with ho; subst ho; simp
      · refine M.returns_pure ?_
        intro o ho; cases ho
    have hnone : M.Returns (fun r : Option Out => ∀ o, r = some o → o.1 ∈ [c.device, 0]) (pure none : M (Option Out)) :=
      M.returns_pure (by intro o ho; cases ho)
    refine M.returns_bind_with (Q := fun r : Option Out => ∀ o, r = some o → o.1 ∈ [c.device, 0]) _ _ ?_ fun r hr => ?_
    · split
      · exact hmode _
      · exact hnone
    · split
      · rename_i out
        exact M.returns_pure (hr out rfl)
      · refine M.returns_bind _ _ fun hb => ?_
        refine M.returns_bind_with (Q := fun r : Option Out => ∀ o, r = some o → o.1 ∈ [c.device, 0]) _ _ ?_ fun r2 hr2 => ?_
        · split
          · exact hmode _
          · exact hnone
        · split
          · rename_i out
            exact M.returns_pure (hr2 out rfl)
          · exact M.returns_pure (hbReply_mem c hb)

end Ledger
end PowHsm

namespace PowHsm
open M Dongle Ledger Generated Tbl Comm
namespace Ledger

/-! ### the codes of the gate and of the validators -/

theorem gate_error_mem {c : Codes} {kvs : List (String × Json)} {e : Int} (h : gate c kvs = .error e) :
    e ∈ [c.invalidRequest, c.wrongVersion, c.commandUnknown] := by
  unfold gate at h
  repeat' split at h
  all_goals first
    | (cases h; simp; done)
    | (cases h; done)

theorem gate_ok_name {c : Codes} {kvs : List (String × Json)} {name : String} (h : gate c kvs = .ok name) :
    Json.lookup kvs "command" = some (.str name) := by
  unfold gate at h
  repeat' split at h
  all_goals first
    | (cases h; done)
    | (cases h; simp_all)

theorem validateAdvance_mem (c : Codes) (req : List (String × Json)) :
    validateAdvance c req ∈ [0, c.invalidBlocks, c.invalidBrothers] := by
  unfold validateAdvance
  repeat' split
  all_goals simp

theorem validateUpdate_mem (c : Codes) (req : List (String × Json)) :
    validateUpdate c req ∈ [0, c.invalidBlocks] := by
  unfold validateUpdate
  repeat' split
  all_goals simp

theorem validateUd_mem (c : Codes) (req : List (String × Json)) (n : Nat) :
    validateUd c req n ∈ [0, c.invalidUd] := by
  unfold validateUd
  repeat' split
  all_goals simp

theorem validateKeyId_error {c : Codes} {req : List (String × Json)} {e : Int} (h : validateKeyId c req = .error e) :
    e = c.invalidKeyId := by
  unfold validateKeyId at h
  repeat' split at h
  all_goals first
    | (cases h; rfl)
    | (cases h; done)

theorem validateSign_error {m : Mode} {req : List (String × Json)} {e : Int} (h : validateSign m req = .error e) :
    e ∈ [(codes m).invalidKeyId, (codes m).invalidAuth, (codes m).invalidMessage] := by
  unfold validateSign at h
  dsimp only at h
  split at h
  · rename_i e' he
    cases h
    simp [validateKeyId_error he]
  · cases m with
    | v5 =>
      dsimp only at h
      split at h
      · cases h
        rcases validateAuth_mem (codes .v5) req false with h0 | h0
        · rename_i hlt; rw [h0] at hlt; exact absurd hlt (by decide)
        · simp [h0]
      · split at h
        · cases h
          rcases validateMessage_mem (codes .v5) req .any with h0 | h0
          · rename_i hlt; rw [h0] at hlt; exact absurd hlt (by decide)
          · simp [h0]
        · cases h
    | v1 =>
      dsimp only at h
      split at h
      · cases h
      · cases h; simp

/-- the error codes the per-command validators can answer with -/
def valCodes (m : Mode) (name : String) : List Int :=
  let c := codes m
  match name with
  | "sign" => [c.invalidKeyId, c.invalidAuth, c.invalidMessage]
  | "getPubKey" => [c.invalidKeyId]
  | "advanceBlockchain" => [c.invalidBlocks, c.invalidBrothers]
  | "updateAncestorBlock" => [c.invalidBlocks]
  | "signerHeartbeat" => [c.invalidUd]
  | "uiHeartbeat" => [c.invalidUd]
  | _ => []

theorem ofInt_error {v e : Int} {S : List Int} (hv : v ∈ 0 :: S)
    (h : (if v < 0 then (Except.error v : Except Int (List Nat)) else .ok []) = .error e) : e ∈ S := by
  split at h
  · cases h
    rename_i hlt
    simp only [List.mem_cons] at hv
    rcases hv with h0 | h0
    · rw [h0] at hlt; exact absurd hlt (by decide)
    · exact h0
  · cases h

theorem validateCmd_error {m : Mode} {name : String} {kvs : List (String × Json)} {e : Int}
    (h : validateCmd m name kvs = .error e) : e ∈ valCodes m name := by
  unfold validateCmd at h
  dsimp only at h
  split at h
  · simpa [valCodes] using validateSign_error h
  · simp [valCodes, validateKeyId_error h]
  · simpa [valCodes] using ofInt_error (validateAdvance_mem _ _) h
  · simpa [valCodes] using ofInt_error (validateUpdate_mem _ _) h
  · simpa [valCodes] using ofInt_error (validateUd_mem _ _ _) h
  · simpa [valCodes] using ofInt_error (validateUd_mem _ _ _) h
  · cases h

/-- the codes a command's handler can answer with -/
def opCodes (m : Mode) (name : String) : List Int :=
  let c := codes m
  match name with
  | "version" => [0]
  | "sign" => (match m with
      | .v5 => signV5Codes c
      | .v1 => c.device :: 0 :: translateSignV1Default :: translateSignV1.map (·.2))
  | "getPubKey" => [0, c.invalidKeyId, c.device]
  | "advanceBlockchain" => c.device :: translateAdvanceDefault :: translateAdvance.map (·.2)
  | "updateAncestorBlock" => c.device :: translateUpdateDefault :: translateUpdate.map (·.2)
  | "signerHeartbeat" => [c.device, c.device, 0]
  | "uiHeartbeat" => [c.device, c.device, 0]
  | "resetAdvanceBlockchain" => [c.device, 0]
  | "blockchainState" => [c.device, 0]
  | "blockchainParameters" => [c.device, 0]
  | _ => []

theorem operate_codes (m : Mode) (hs : Hashes) (name : String) (kvs : List (String × Json)) (path : List Nat) :
    CodesIn (opCodes m name) (operate m hs name kvs path) := by
  unfold opCodes
  dsimp only
  split <;> simp only [operate]
  · exact M.returns_pure (by simp)
  · cases m with
    | v5 => exact signV5_codes _ _ _
    | v1 => exact signV1_codes _ _ _
  · exact getPubkey_codes _ _
  · exact advance_codes _ _ _
  · exact updateAncestorBlock_codes _ _ _
  · exact signerHb_codes _ _
  · exact uiHb_codes _ _
  · exact resetAdvance_codes _
  · exact blockchainState_codes _
  · exact blockchainParameters_codes _
  · exact M.returns_throw _

end Ledger
end PowHsm
