/-
  Equations for the scripted-environment monad `M`.
-/
import PowHsm.Basic.Script
namespace PowHsm
namespace M

@[simp] theorem pure_apply (a : α) (w : World) : (pure a : M α) w = ⟨.ok a, [], w⟩ := rfl

theorem bind_apply (m : M α) (f : α → M β) (w : World) :
    (m >>= f) w = match m w with
      | ⟨.ok a, e1, w1⟩ => ⟨(f a w1).val, e1 ++ (f a w1).evs, (f a w1).w⟩
      | ⟨.error e, e1, w1⟩ => ⟨.error e, e1, w1⟩ := rfl

/-- a computation that ends in `pure (g a)` can only return values of the form `g a` -/
theorem bind_pure_val {m : M α} {g : α → β} {w : World} {r : β}
    (h : ((m >>= fun a => pure (g a)) w).val = .ok r) : ∃ a, r = g a := by
  rw [bind_apply] at h
  split at h
  · rename_i a e1 w1 _
    simp only [pure_apply] at h
    exact ⟨a, by injection h with h; exact h.symm⟩
  · simp at h

@[simp] theorem attempt_apply (m : M α) (w : World) :
    (attempt m) w = ⟨.ok (m w).val, (m w).evs, (m w).w⟩ := rfl

/-- every value `m` can return satisfies `P` (in every world) -/
def Returns (P : α → Prop) (m : M α) : Prop := ∀ w a, (m w).val = .ok a → P a

theorem returns_pure {P : α → Prop} {a : α} (h : P a) : Returns P (pure a : M α) := by
  intro w b hb
  simp only [pure_apply] at hb
  injection hb with hb; subst hb; exact h

theorem returns_bind_pure {P : β → Prop} (m : M α) (g : α → β) (h : ∀ a, P (g a)) :
    Returns P (m >>= fun a => pure (g a)) := by
  intro w b hb
  obtain ⟨a, rfl⟩ := bind_pure_val hb
  exact h a

theorem returns_throw {P : α → Prop} (e : Exc) : Returns P (throw' e : M α) := by
  intro w a h; simp [throw'] at h

theorem bind_error {m : M α} {f : α → M β} {w w' : World} {e : Exc} {ev : List Ev}
    (h : m w = ⟨.error e, ev, w'⟩) : (m >>= f) w = ⟨.error e, ev, w'⟩ := by
  rw [bind_apply, h]

theorem bind_ok {m : M α} {f : α → M β} {w w' : World} {a : α} {ev : List Ev}
    (h : m w = ⟨.ok a, ev, w'⟩) : (m >>= f) w = ⟨(f a w').val, ev ++ (f a w').evs, (f a w').w⟩ := by
  rw [bind_apply, h]

/-- inversion of a successful bind -/
theorem bind_ok_inv {m : M α} {f : α → M β} {w : World} {b : β} (h : ((m >>= f) w).val = .ok b) :
    ∃ a e w1, m w = ⟨.ok a, e, w1⟩ ∧ (f a w1).val = .ok b ∧
      ((m >>= f) w).evs = e ++ (f a w1).evs ∧ ((m >>= f) w).w = (f a w1).w := by
  rw [bind_apply] at h ⊢
  cases hm : m w with
  | mk v e w1 =>
    rw [hm] at h
    cases v with
    | error ex => simp at h
    | ok a => exact ⟨a, e, w1, rfl, h, rfl, rfl⟩

theorem returns_bind {P : β → Prop} (m : M α) (f : α → M β) (h : ∀ a, Returns P (f a)) :
    Returns P (m >>= f) := by
  intro w b hb
  rw [bind_apply] at hb
  split at hb
  · rename_i a e1 w1 _
    exact h a w1 b hb
  · simp at hb

/-- …knowing also that `m` did return `a` -/
theorem returns_bind_of {P : β → Prop} (m : M α) (f : α → M β)
    (h : ∀ a, (∃ w, (m w).val = .ok a) → Returns P (f a)) : Returns P (m >>= f) := by
  intro w b hb
  rw [bind_apply] at hb
  split at hb
  · rename_i a e1 w1 heq
    exact h a ⟨w, by rw [heq]⟩ w1 b hb
  · simp at hb

/-- …knowing what `m` can return -/
theorem returns_bind_with {Q : α → Prop} {P : β → Prop} (m : M α) (f : α → M β)
    (hm : Returns Q m) (h : ∀ a, Q a → Returns P (f a)) : Returns P (m >>= f) := by
  intro w b hb
  rw [bind_apply] at hb
  split at hb
  · rename_i a e1 w1 heq
    exact h a (hm w a (by rw [heq])) w1 b hb
  · simp at hb

theorem returns_tryCatchIf {P : α → Prop} (m : M α) (p : Exc → Bool) (h : Exc → M α)
    (h1 : Returns P m) (h2 : ∀ e, Returns P (h e)) : Returns P (tryCatchIf m p h) := by
  intro w a ha
  unfold tryCatchIf at ha
  split at ha
  · rename_i e e1 w1 heq
    split at ha
    · exact h2 e w1 a ha
    · simp at ha
  · rename_i r hne
    exact h1 w a ha

theorem returns_mono {P Q : α → Prop} {m : M α} (h : Returns P m) (hpq : ∀ a, P a → Q a) : Returns Q m :=
  fun w a ha => hpq a (h w a ha)

end M
end PowHsm
