/-
  Trace facts about the block operations (`Dongle.sendBlockHeader`, `blockLoop`), used by Props/C05.
-/
import PowHsm.Proofs.Sign
import PowHsm.Dongle.Blocks
namespace PowHsm
namespace Dongle
open M Generated Tbl

theorem headerMetaStep_evs (c : BlockCfg) (isB : Bool) (data : Bytes) (w : World) :
    (headerMetaStep c isB data w).evs = [.apdu (CLA :: c.cmd :: data)] := by
  unfold headerMetaStep catchResult
  rw [tryCatchIf_evs_silent, bind_evs_silent, sendCommand_evs]
  · intro resp
    refine Emits.bind (idx_emits _ _) fun rop => ?_
    split
    · exact Emits.pure _
    · exact Emits.bind (idx_emits _ _) fun _ => Emits.pure _
  · intro e
    split
    · exact Emits.pure _
    · exact Emits.throw _

/-- the chunked transfer of one header: messages of the chunk operation only, whose payloads form
    a prefix of the header's bytes -/
theorem headerChunkStep_spec (c : BlockCfg) (isB : Bool) (raw : Bytes) (req : Nat) (w : World) :
    ∃ as : List Bytes, (headerChunkStep c isB raw req w).evs = as.map Ev.apdu ∧
      (∀ a ∈ as, a.take 3 = [CLA, c.cmd, headerOpChunk c isB]) ∧ ∃ k, payloads as = raw.take k := by
  have hshape := sendChunksAux_shape c.cmd (headerOpChunk c isB) (headerNexts c isB) raw false w.script 0 req
  refine ⟨(sendChunksAux c.cmd (headerOpChunk c isB) (headerNexts c isB) raw false 0 req w.script).2.1, ?_,
    hshape.1, by simpa using hshape.2⟩
  unfold headerChunkStep catchResult M.tryCatchIf
  rw [bind_apply, sendChunks_apply]
  generalize sendChunksAux c.cmd (headerOpChunk c isB) (headerNexts c isB) raw false 0 req w.script = r
  obtain ⟨v, as, s'⟩ := r
  cases v with
  | error e =>
    simp only
    cases e <;> simp [M.throw']
  | ok p =>
    obtain ⟨okb, resp⟩ := p
    simp only
    cases okb <;> simp

/-- **one header on the wire**, for every device: either nothing is sent (its metadata cannot be
    computed), or exactly the metadata message followed by chunk messages whose payloads form a
    prefix of the header's own bytes -/
theorem sendBlockHeader_spec (h : Hashes) (c : BlockCfg) (isB : Bool) (block : Option Bytes) (w : World) :
    ((sendBlockHeader h c isB block w).evs = [] ∧ (headerMeta h c isB block = none ∨ block = none)) ∨
    ∃ data raw as, headerMeta h c isB block = some data ∧ block = some raw ∧
      (sendBlockHeader h c isB block w).evs = .apdu (CLA :: c.cmd :: data) :: as.map Ev.apdu ∧
      (∀ a ∈ as, a.take 3 = [CLA, c.cmd, headerOpChunk c isB]) ∧ ∃ k, payloads as = raw.take k := by
  unfold sendBlockHeader
  cases hm : headerMeta h c isB block with
  | none => left; exact ⟨rfl, Or.inl rfl⟩
  | some data =>
    cases hb : block with
    | none => left; exact ⟨rfl, Or.inr rfl⟩
    | some raw =>
      right
      simp only
      have he := headerMetaStep_evs c isB data w
      rw [bind_apply]
      cases hs : headerMetaStep c isB data w with
      | mk v e w1 =>
        rw [hs] at he
        simp only at he; subst he
        cases v with
        | error ex => exact ⟨data, raw, [], rfl, rfl, by simp, by simp, 0, by simp⟩
        | ok s =>
          cases s with
          | error code => exact ⟨data, raw, [], rfl, rfl, by simp, by simp, 0, by simp⟩
          | ok req =>
            obtain ⟨as, h1, h2, h3⟩ := headerChunkStep_spec c isB raw req w1
            exact ⟨data, raw, as, rfl, rfl, by simp [h1], h2, h3⟩

/-- the metadata message starts with the operation byte of its kind -/
theorem headerMeta_head (h : Hashes) (c : BlockCfg) (isB : Bool) (block : Option Bytes) (data : Bytes)
    (hm : headerMeta h c isB block = some data) : ∃ t, data = headerOpMeta c isB :: t := by
  unfold headerMeta at hm
  cases block with
  | none => simp at hm
  | some raw =>
    by_cases hd : h.tooDeep raw = true
    · simp [hd] at hm
    · cases hsz : Block.mmPayloadSize raw with
      | none => simp [hd, hsz] at hm
      | some sz =>
        by_cases hbig : sz ≥ 2 ^ 16
        · simp [hd, hsz, hbig] at hm
        · by_cases hadv : c.advance = true
          · cases hcb : Block.coinbaseTxn raw with
            | none => simp [hd, hsz, hbig, hadv, hcb] at hm
            | some cb =>
              cases hh : coinbaseHash h cb with
              | none => simp [hd, hsz, hbig, hadv, hcb, hh] at hm
              | some hsh =>
                simp [hd, hsz, hbig, hadv, hcb, hh] at hm
                exact ⟨_, by rw [← hm]; rfl⟩
          · simp [hd, hsz, hbig, hadv] at hm
            exact ⟨_, by rw [← hm]; rfl⟩

/-- the operations of the brother exchanges differ from those of the main header stream -/
def Distinct (c : BlockCfg) : Prop :=
  c.opBroListMeta ≠ c.opHeaderMeta ∧ c.opBroListMeta ≠ c.opHeaderChunk ∧
  c.opBroMeta ≠ c.opHeaderMeta ∧ c.opBroMeta ≠ c.opHeaderChunk ∧
  c.opBroChunk ≠ c.opHeaderMeta ∧ c.opBroChunk ≠ c.opHeaderChunk

theorem advCfg_distinct : Distinct advCfg := by unfold Distinct; decide
theorem updCfg_distinct : Distinct updCfg := by unfold Distinct; decide

/-- an event that is not a header-META / header-CHUNK message of the main block stream -/
def notMain (c : BlockCfg) : Ev → Bool
  | .apdu a => (a.getD 2 0 != c.opHeaderMeta) && (a.getD 2 0 != c.opHeaderChunk)
  | _ => true

theorem sendBlockHeader_bro_notMain (h : Hashes) (c : BlockCfg) (hc : Distinct c) (b : Option Bytes) :
    Emits (notMain c) (sendBlockHeader h c true b) := by
  intro w
  rcases sendBlockHeader_spec h c true b w with ⟨h0, _⟩ | ⟨data, raw, as, hm, _, he, hh, _⟩
  · rw [h0]; rfl
  · rw [he]
    obtain ⟨t, ht⟩ := headerMeta_head h c true b data hm
    subst ht
    obtain ⟨_, _, h3, h4, h5, h6⟩ := hc
    simp only [List.all_cons, List.all_map, List.all_eq_true, Function.comp, Bool.and_eq_true]
    refine ⟨by simp [notMain, headerOpMeta, h3, h4], ?_⟩
    intro a ha
    have := hh a ha
    have h2 : a.getD 2 0 = c.opBroChunk := by
      match a, this with
      | x :: y :: z :: _, hx => simp [headerOpChunk] at hx; simp [hx.2.2]
    have h2' : a[2]?.getD 0 = c.opBroChunk := by simpa [List.getD] using h2
    simp [notMain, h2', h5, h6]

theorem sendBrothers_notMain (h : Hashes) (c : BlockCfg) (hc : Distinct c) (bs : List (Option Bytes)) :
    ∀ last, Emits (notMain c) (sendBrothers h c bs last) := by
  induction bs with
  | nil => intro last; unfold sendBrothers; exact Emits.pure _
  | cons b bs ih =>
    intro last
    unfold sendBrothers
    refine Emits.bind (sendBlockHeader_bro_notMain h c hc b) fun r => ?_
    split
    · exact Emits.pure _
    · exact ih _

theorem brothersPart_notMain (h : Hashes) (c : BlockCfg) (hc : Distinct c) (brothers : List (List (Option Bytes)))
    (resp0 : Bytes) : Emits (notMain c) (brothersPart h c brothers resp0) := by
  unfold brothersPart
  refine Emits.bind (idx_emits _ _) fun rop0 => ?_
  split
  · dsimp only
    split
    · exact Emits.pure _
    · refine Emits.bind (catchResult_emits (Emits.bind (sendCommand_emits _ _ ?_) fun resp => ?_) fun sw => Emits.pure _)
        fun r => ?_
      · simp [notMain, hc.1, hc.2.1]
      · split
        · refine Emits.bind (idx_emits _ _) fun rop => ?_
          split <;> exact Emits.pure _
        · exact Emits.pure _
      · split
        · exact Emits.pure _
        · exact sendBrothers_notMain h c hc _ _
  · exact Emits.pure _

end Dongle
end PowHsm
