/-
  C18, public keys: what `do_get_pubkeys` writes are the device's answers to GET_PUBLIC_KEY for the six
  documented paths, asked in the documented order.
-/
import PowHsm.Proofs.Admin
namespace PowHsm
namespace Admin
open Dongle Ledger Generated Tbl M

theorem M_bind_eq {α β : Type} (x : M α) (f : α → M β) (w : World) :
    (x >>= f) w = match x w with
      | ⟨.ok a, e1, w1⟩ => ⟨(f a w1).val, e1 ++ (f a w1).evs, (f a w1).w⟩
      | ⟨.error e, e1, w1⟩ => ⟨.error e, e1, w1⟩ := rfl

/-- the scripted-environment monad satisfies the monad laws -/
instance : LawfulMonad M := LawfulMonad.mk' (m := M)
  (id_map := by
    intro α x
    funext w
    show (x >>= fun a => pure (id a)) w = x w
    rw [M_bind_eq]
    cases hx : x w with
    | mk v e w1 => cases v <;> simp [M.pure_apply])
  (pure_bind := by
    intro α β a f
    funext w
    rw [M_bind_eq]
    simp [M.pure_apply])
  (bind_assoc := by
    intro α β γ x f g
    funext w
    rw [M_bind_eq (x >>= f) g w, M_bind_eq x f w, M_bind_eq x (fun a => f a >>= g) w]
    cases hx : x w with
    | mk v e w1 =>
      cases v with
      | error ex => rfl
      | ok a =>
        simp only
        rw [M_bind_eq (f a) g w1]
        cases hf : f a w1 with
        | mk v2 e2 w2 =>
          cases v2 with
          | error ex => rfl
          | ok b => simp [List.append_assoc])

/-- the GET_PUBLIC_KEY message for a path -/
def keyMsg (p : List Nat) : Bytes := CLA :: u8 Command_GET_PUBLIC_KEY :: Bip32.toBinary p

/-- gathering the keys of a list of paths: one message per path, in order, and the keys returned are the
    device's answers to exactly those messages -/
theorem gather_keys : ∀ (ps : List (List Nat)) (w : World) (ks : List Bytes),
    (ps.mapM getPublicKey w).val = .ok ks →
    (ps.mapM getPublicKey w).evs = ps.map (fun p => Ev.apdu (keyMsg p)) ∧
    ks.length = ps.length ∧ ∃ rest, w.script = ks.map Resp.data ++ rest := by
  intro ps
  induction ps with
  | nil =>
    intro w ks h
    simp only [List.mapM_nil, M.pure_apply] at h ⊢
    injection h with h
    subst h
    exact ⟨rfl, rfl, w.script, rfl⟩
  | cons p rest ih =>
    intro w ks h
    rw [List.mapM_cons] at h ⊢
    obtain ⟨k, e1, w1, hk, h2, hev, _⟩ := M.bind_ok_inv h
    obtain ⟨r1, hscript, he1, hw1⟩ := sendCommand_ok_inv hk
    obtain ⟨ks', e2, w2, hks, h3, hev2, _⟩ := M.bind_ok_inv h2
    simp only [M.pure_apply] at h3 hev2
    injection h3 with h3
    subst h3
    obtain ⟨ihev, ihlen, rest', hrest⟩ := ih w1 ks' (by rw [hks])
    refine ⟨?_, by simp [ihlen], rest', ?_⟩
    · rw [hev, hev2, he1]
      rw [hks] at ihev
      simp only at ihev
      simp [ihev, keyMsg, getPublicKey]
    · rw [hscript]
      rw [hw1] at hrest
      simp only at hrest
      simp [hrest]

theorem mapM_some (ks : List Bytes) : ks.mapM (some : Bytes → Option Bytes) = some ks := by
  induction ks with
  | nil => rfl
  | cons k rest ih => simp [List.mapM_cons, ih]

/-- with every answer readable as a key, the writing step hands the keys over as they are and then
    only disconnects -/
theorem pubkeysWrite_some (o : Options) (keys : List Bytes) (w2 : World) :
    ∃ w3, pubkeysWrite o some keys w2 = ⟨.ok keys, [.disconnect], w3⟩ := by
  unfold pubkeysWrite
  rw [mapM_some]
  cases ho : o.hasOutput
  · exact ⟨w2, rfl⟩
  · exact ⟨{ w2 with pubkeyFiles := some (keys.length, true) }, rfl⟩

/-- **the public keys written are the device's keys for the six documented paths**: when `do_get_pubkeys`
    ends normally, the last exchanges of the run are GET_PUBLIC_KEY for the six documented paths, in the
    documented order (btc, rsk, mst, tbtc, trsk, tmst), followed only by the disconnection; and the six
    keys handed to the output are the device's answers to exactly those six messages (`w1` is the world
    in which the first of them is sent) — for every device behaviour and every operator script -/
theorem pubkeys_are_device_keys (o : Options) (w : World) (ks : List Bytes)
    (h : (doGetPubkeys o some w).val = .ok ks) :
    ∃ (pre : List Ev) (w1 : World) (rest : List Resp),
      (doGetPubkeys o some w).evs = pre ++ docPaths.map (fun p => Ev.apdu (keyMsg p)) ++ [.disconnect] ∧
      (pubkeysPrepare o w).evs = pre ∧ (pubkeysPrepare o w).w = w1 ∧
      w1.script = ks.map Resp.data ++ rest ∧ ks.length = 6 := by
  unfold doGetPubkeys at h ⊢
  obtain ⟨_, e0, w1, hprep, h1, hev1, _⟩ := M.bind_ok_inv h
  obtain ⟨keys, e1, w2, hkeys, h2, hev2, _⟩ := M.bind_ok_inv h1
  obtain ⟨hgev, hlen, rest, hscript⟩ := gather_keys docPaths w1 keys (by rw [hkeys])
  obtain ⟨w3, hw⟩ := pubkeysWrite_some o keys w2
  rw [hw] at h2 hev2
  simp only at h2 hev2
  injection h2 with h2
  subst h2
  refine ⟨e0, w1, rest, ?_, by rw [hprep], by rw [hprep], hscript, by rw [hlen]; rfl⟩
  rw [hev1, hev2]
  rw [hkeys] at hgev
  simp only at hgev
  rw [hgev, List.append_assoc]

end Admin
end PowHsm
