/-
  The converse half of C01's "the reply is successful exactly when the device consumed every byte of
  every part and reported success": if every part went out in full and the device's answer to the last
  message names SUCCESS and carries a DER signature, the signature is returned.
-/
import PowHsm.Proofs.SignLast
namespace PowHsm
open M Dongle Generated Tbl

namespace Dongle

theorem sendChunksAux_length_pos (cmd op : UInt8) (nexts : List UInt8) (data : Bytes) (full : Bool)
    (s : List Resp) : ∀ (offset req : Nat), 0 < (sendChunksAux cmd op nexts data full offset req s).2.1.length := by
  induction s with
  | nil => intro offset req; simp [sendChunksAux]
  | cons r rest ih =>
    intro offset req
    unfold sendChunksAux
    dsimp only
    repeat' split
    all_goals simp

theorem slice_prefix (data : Bytes) (offset req : Nat) :
    data.drop offset = slice data offset req ++ data.drop (offset + (slice data offset req).length) := by
  unfold slice
  have h : ((data.drop offset).take req).length = min req (data.length - offset) := by simp
  rw [h, ← List.drop_drop]
  by_cases hc : req ≤ data.length - offset
  · rw [Nat.min_eq_left hc]; exact (List.take_append_drop req (data.drop offset)).symm
  · have hc' : data.length - offset ≤ req := by omega
    rw [Nat.min_eq_right hc', List.take_of_length_le (by simp; omega)]
    simp
    omega

/-- the loop against a device whose answer to the last message sent names one of the expected next
    operations, when the messages sent carry all of the data: the transfer reports success with
    that answer -/
theorem sendChunksAux_complete (cmd op : UInt8) (nexts : List UInt8) (data : Bytes) (full : Bool)
    (s : List Resp) : ∀ (offset req : Nat) (resp : Bytes) (rop : UInt8),
    (∃ n, (sendChunksAux cmd op nexts data full offset req s).2.1.length = n + 1 ∧ s[n]? = some (.data resp)) →
    resp[2]? = some rop → rop ∈ nexts → rop ≠ op →
    payloads (sendChunksAux cmd op nexts data full offset req s).2.1 = data.drop offset →
    (sendChunksAux cmd op nexts data full offset req s).1 = .ok (true, resp) := by
  induction s with
  | nil => intro offset req resp rop ⟨n, _, h2⟩; simp at h2
  | cons r rest ih =>
    intro offset req resp rop hlast hrop hin hne hpay
    unfold sendChunksAux at hlast hpay ⊢
    dsimp only at hlast hpay ⊢
    -- the answer to the first message
    cases r with
    | data d =>
      simp only [classify] at hlast hpay ⊢
      cases hd2 : d[2]? with
      | none =>
        simp only [hd2] at hlast
        obtain ⟨n, h1, h2⟩ := hlast
        simp at h1; subst h1
        simp at h2; subst h2
        rw [hd2] at hrop; cases hrop
      | some dop =>
        simp only [hd2] at hlast hpay ⊢
        by_cases hc1 : (!(op :: nexts).contains dop) = true
        · simp only [hc1, if_true] at hlast
          obtain ⟨n, h1, h2⟩ := hlast
          simp at h1; subst h1
          simp at h2; subst h2
          rw [hd2] at hrop; injection hrop with hrop; subst hrop
          simp at hc1
          exact absurd hin hc1.2
        · simp only [hc1, Bool.false_eq_true, if_false] at hlast hpay ⊢
          by_cases hc2 : (dop != op) = true
          · simp only [hc2, if_true] at hlast hpay ⊢
            -- the loop stops here: this is the last answer
            have hd : d = resp := by
              have : ∃ n, (1 : Nat) = n + 1 ∧ (Resp.data d :: rest)[n]? = some (.data resp) := by
                split at hlast <;> simpa using hlast
              obtain ⟨n, h1, h2⟩ := this
              have : n = 0 := by omega
              subst this
              simpa using h2
            subst hd
            have hcomplete : ¬ (full = true ∧ offset + (slice data offset req).length < data.length) := by
              intro hcon
              have hp : payloads [CLA :: cmd :: op :: slice data offset req] = data.drop offset := by
                split at hpay <;> exact hpay
              simp only [payloads_cons, payload_mk, payloads_nil, List.append_nil] at hp
              have := congrArg List.length hp
              simp only [List.length_drop] at this
              omega
            have : (full && decide (offset + (slice data offset req).length < data.length)) = false := by
              cases full
              · rfl
              · simp only [Bool.true_and, decide_eq_false_iff_not]
                intro h; exact hcomplete ⟨rfl, h⟩
            simp [this]
          · simp only [hc2, Bool.false_eq_true, if_false] at hlast hpay ⊢
            cases hd3 : d[3]? with
            | none =>
              simp only [hd3] at hlast
              obtain ⟨n, h1, h2⟩ := hlast
              simp at h1; subst h1
              simp at h2; subst h2
              have : dop = op := by simpa using hc2
              rw [hd2] at hrop; injection hrop with hrop
              exact absurd (hrop ▸ this) hne
            | some nx =>
              simp only [hd3] at hlast hpay ⊢
              have hpos := sendChunksAux_length_pos cmd op nexts data full rest
                (offset + (slice data offset req).length) nx.toNat
              apply ih _ _ resp rop ?_ hrop hin hne ?_
              · obtain ⟨n, h1, h2⟩ := hlast
                have h1' : (sendChunksAux cmd op nexts data full (offset + (slice data offset req).length)
                    nx.toNat rest).2.1.length + 1 = n + 1 := h1
                have hn : n = (sendChunksAux cmd op nexts data full (offset + (slice data offset req).length)
                    nx.toNat rest).2.1.length := by omega
                cases hk : (sendChunksAux cmd op nexts data full (offset + (slice data offset req).length)
                    nx.toNat rest).2.1.length with
                | zero => omega
                | succ k =>
                  refine ⟨k, rfl, ?_⟩
                  rw [hn, hk] at h2
                  simpa using h2
              · simp only [payloads_cons, payload_mk] at hpay
                have hsp := slice_prefix data offset req
                rw [hsp] at hpay
                exact List.append_cancel_left hpay
    | sw x =>
      simp only [classify] at hlast
      by_cases hu : isUserDefined x = true
      · simp only [hu, if_true] at hlast
        obtain ⟨n, h1, h2⟩ := hlast
        simp at h1; subst h1; simp at h2
      · simp only [hu, Bool.false_eq_true, if_false] at hlast
        obtain ⟨n, h1, h2⟩ := hlast
        simp at h1; subst h1; simp at h2
    | timeout =>
      simp only [classify] at hlast
      obtain ⟨n, h1, h2⟩ := hlast
      simp at h1; subst h1; simp at h2
    | writeErr =>
      simp only [classify] at hlast
      obtain ⟨n, h1, h2⟩ := hlast
      simp at h1; subst h1; simp at h2
    | readErr =>
      simp only [classify] at hlast
      obtain ⟨n, h1, h2⟩ := hlast
      simp at h1; subst h1; simp at h2
    | other =>
      simp only [classify] at hlast
      obtain ⟨n, h1, h2⟩ := hlast
      simp at h1; subst h1; simp at h2

/-- the messages a chunked step sends against the device script of `w` -/
def chunkMsgs (op : UInt8) (nexts : List UInt8) (data : Bytes) (init : Nat) (w : World) : List Bytes :=
  (sendChunksAux CMD_SIGN op nexts data true 0 init w.script).2.1

theorem chunkMsgs_ne_nil (op : UInt8) (nexts : List UInt8) (data : Bytes) (init : Nat) (w : World) :
    chunkMsgs op nexts data init w ≠ [] := by
  have := sendChunksAux_length_pos CMD_SIGN op nexts data true w.script 0 init
  intro h; unfold chunkMsgs at h; rw [h] at this; simp at this

theorem lastAnswer_map_apdu (s : List Resp) (as : List Bytes) (r : Resp) :
    lastAnswer s (as.map Ev.apdu) = some r ↔ ∃ n, as.length = n + 1 ∧ s[n]? = some r := by
  unfold lastAnswer
  rw [apdus_map_apdu]
  cases as.length with
  | zero => simp
  | succ n => simp

/-- a chunked step whose messages carried all of the data and whose last answer names an expected
    next operation hands that answer to `post` -/
theorem chunkStep_complete {β : Type} (op : UInt8) (nexts : List UInt8) (data : Bytes) (init : Nat)
    (rule : List (List Nat × Int) × Int) (post : Bytes → M (Except Int β)) (w : World)
    (resp : Bytes) (rop : UInt8) (y : Except Int β)
    (hlast : lastAnswer w.script ((chunkMsgs op nexts data init w).map Ev.apdu) = some (.data resp))
    (hrop : resp[2]? = some rop) (hin : rop ∈ nexts) (hne : rop ≠ op)
    (hpay : payloads (chunkMsgs op nexts data init w) = data)
    (hpost : ∀ w', (post resp w').val = .ok y) :
    (chunkStep op nexts data init rule post w).val = .ok y := by
  have hc := sendChunksAux_complete CMD_SIGN op nexts data true w.script 0 init resp rop
    ((lastAnswer_map_apdu _ _ _).1 hlast) hrop hin hne (by simpa [chunkMsgs] using hpay)
  unfold chunkStep catchResult M.tryCatchIf
  rw [bind_apply, sendChunks_apply]
  simp only [hc, Bool.not_true, Bool.false_eq_true, if_false]
  have := hpost { w with script := (sendChunksAux CMD_SIGN op nexts data true 0 init w.script).2.2 }
  generalize post resp { w with script := (sendChunksAux CMD_SIGN op nexts data true 0 init w.script).2.2 } = q at this
  obtain ⟨qv, qe, qw⟩ := q
  simp only at this
  subst this
  rfl

/-- `chunkStep_spec` with its witness named -/
theorem chunkStep_explicit {β : Type} (op : UInt8) (nexts : List UInt8) (data : Bytes) (init : Nat)
    (rule : List (List Nat × Int) × Int) (post : Bytes → M (Except Int β))
    (hpost : ∀ resp w, (post resp w).evs = []) (w : World) :
    (chunkStep op nexts data init rule post w).evs = (chunkMsgs op nexts data init w).map Ev.apdu ∧
      (∀ a ∈ chunkMsgs op nexts data init w, a.take 3 = [CLA, CMD_SIGN, op]) ∧
      (∃ k, payloads (chunkMsgs op nexts data init w) = data.take k) ∧
      (∀ x, (chunkStep op nexts data init rule post w).val = .ok (.ok x) →
        payloads (chunkMsgs op nexts data init w) = data) := by
  have hshape := sendChunksAux_shape CMD_SIGN op nexts data true w.script 0 init
  have hok := sendChunksAux_ok CMD_SIGN op nexts data true w.script 0 init
  unfold chunkMsgs
  refine ⟨?_, hshape.1, by simpa using hshape.2, ?_⟩
  all_goals
    unfold chunkStep catchResult M.tryCatchIf
    rw [bind_apply, sendChunks_apply]
    generalize sendChunksAux CMD_SIGN op nexts data true 0 init w.script = r at hok
    obtain ⟨v, as, s'⟩ := r
    cases v with
    | error e =>
      simp only
      cases e <;> simp
    | ok p =>
      obtain ⟨okb, resp⟩ := p
      simp only
      cases okb with
      | false =>
        simp
      | true =>
        simp only [Bool.not_true, Bool.false_eq_true, if_false]
        have hp := hpost resp { w with script := s' }
        generalize post resp { w with script := s' } = q at hp
        obtain ⟨qv, qe, qw⟩ := q
        simp only at hp; subst hp
        cases qv with
        | error e => cases e <;> simp [M.throw']
        | ok y =>
          simp
          try (intro _ _; simpa using (hok resp rfl).2 rfl (Nat.zero_le _))

theorem step_val {β : Type} (m : M (Except Int β)) (k : β → M SignOut) (w : World) (x : β)
    (h : (m w).val = .ok (.ok x)) :
    ((m >>= fun s => orFail s k) w).val = (k x (m w).w).val ∧
    ((m >>= fun s => orFail s k) w).evs = (m w).evs ++ (k x (m w).w).evs := by
  rw [bind_apply]
  cases hm : m w with
  | mk v e w1 =>
    rw [hm] at h
    simp only at h
    subst h
    simp [orFail]

theorem proofPayload_ne_nil (p : List Bytes) : proofPayload p ≠ some [] := by
  unfold proofPayload
  repeat' split
  all_goals simp

/-- step 4 with its converse: the framed proof went out in full and the last answer names SUCCESS
    with a DER signature ⇒ that signature is returned -/
theorem tail4_full (pp : Bytes) (req3 : Nat) (w : World) :
    ∃ as4, (signTail4 pp req3 w).evs = as4.map Ev.apdu ∧ PartOf OP_MERKLE_PROOF pp as4 ∧
      (∀ rr ss, (signTail4 pp req3 w).val = .ok (.sig rr ss) → payloads as4 = pp) ∧
      (∀ resp rr ss, lastAnswer w.script (as4.map Ev.apdu) = some (.data resp) → resp[2]? = some OP_SUCCESS →
        Der.parse (resp.drop 3) = some (rr, ss) → payloads as4 = pp →
        (signTail4 pp req3 w).val = .ok (.sig rr ss)) := by
  obtain ⟨he, hh, hp, hs⟩ := chunkStep_explicit OP_MERKLE_PROOF [OP_SUCCESS] pp req3 Generated.signAuthorized_3
    (fun resp => pure (Except.ok resp)) (fun _ _ => rfl) w
  refine ⟨chunkMsgs OP_MERKLE_PROOF [OP_SUCCESS] pp req3 w, ?_, ⟨hh, hp⟩, ?_, ?_⟩
  · unfold signTail4
    rcases (step_then _ _ w) with ⟨h1, _⟩ | ⟨x, _, h2, _⟩
    · rw [h1, he]
    · rw [h2, he]; simp
  · intro rr ss hv
    unfold signTail4 at hv
    rcases (step_then _ _ w) with ⟨_, h1⟩ | ⟨x, hx, _, _⟩
    · exact absurd hv (h1 rr ss)
    · exact hs x hx
  · intro resp rr ss hlast hrop hder hpay
    have hstep := chunkStep_complete OP_MERKLE_PROOF [OP_SUCCESS] pp req3 Generated.signAuthorized_3
      (fun resp => pure (Except.ok resp)) w resp OP_SUCCESS (.ok resp) hlast hrop (by simp) (by decide) hpay
      (fun _ => rfl)
    unfold signTail4
    rw [(step_val _ _ w resp hstep).1]
    simp [sigOfResponse, hder]

/-- the answer to the last message of `e1 ++ e2`, when the step that sent `e1` consumed one script
    entry per message and `e2` is not empty -/
theorem lastAnswer_shift {β : Type} (m : M β) (ht : Tracks m) (w : World) (as1 as2 : List Bytes)
    (h1 : (m w).evs = as1.map Ev.apdu) (h2 : as2 ≠ []) :
    lastAnswer w.script ((as1 ++ as2).map Ev.apdu) = lastAnswer (m w).w.script (as2.map Ev.apdu) := by
  rw [List.map_append, lastAnswer_append, ht w, h1]
  rw [apdus_map_apdu]
  cases as2 with
  | nil => exact absurd rfl h2
  | cons x xs => simp

theorem ne_nil_of_proof {p : List Bytes} {as : List Bytes} (h : proofPayload p = some (payloads as)) : as ≠ [] := by
  intro hn; subst hn
  exact proofPayload_ne_nil p h

/-- steps 3 and 4 with the converse -/
theorem tail3_full (a : SignAuthArgs) (req2 : Nat) (w : World) :
    ∃ as3 as4, (signTail3 a req2 w).evs = (as3 ++ as4).map Ev.apdu ∧ PartOf OP_TX_RECEIPT a.receipt as3 ∧
      PartOf OP_MERKLE_PROOF ((proofPayload a.proof).getD []) as4 ∧
      (∀ rr ss, (signTail3 a req2 w).val = .ok (.sig rr ss) →
        payloads as3 = a.receipt ∧ proofPayload a.proof = some (payloads as4)) ∧
      (∀ resp rr ss, lastAnswer w.script ((as3 ++ as4).map Ev.apdu) = some (.data resp) →
        resp[2]? = some OP_SUCCESS → Der.parse (resp.drop 3) = some (rr, ss) →
        payloads as3 = a.receipt → proofPayload a.proof = some (payloads as4) →
        (signTail3 a req2 w).val = .ok (.sig rr ss)) := by
  obtain ⟨he, hh, hp, hs⟩ := chunkStep_explicit OP_TX_RECEIPT [OP_MERKLE_PROOF] a.receipt req2
    Generated.signAuthorized_2 nextSize (fun r w => (nextSize_silent r).evs w) w
  have ht := chunkStep_tracks OP_TX_RECEIPT [OP_MERKLE_PROOF] a.receipt req2 Generated.signAuthorized_2 nextSize
    nextSize_tracks
  unfold signTail3
  rcases (step_then _ (signProof a) w) with ⟨h1, h1'⟩ | ⟨x, hx, h2, h2'⟩
  · refine ⟨_, [], by rw [h1, he]; simp, ⟨hh, hp⟩, partOf_nil _ _, fun rr ss hv => absurd hv (h1' rr ss), ?_⟩
    intro resp rr ss _ _ _ _ hpf
    exact absurd rfl (ne_nil_of_proof hpf)
  · cases hpp : proofPayload a.proof with
    | none =>
      refine ⟨_, [], ?_, ⟨hh, hp⟩, partOf_nil _ _, ?_, ?_⟩
      · rw [h2, he]; simp [signProof, hpp]
      · intro rr ss hv; rw [h2'] at hv; simp [signProof, hpp] at hv
      · intro resp rr ss _ _ _ _ hpf; cases hpf
    | some pp =>
      obtain ⟨as4, he4, hp4, hs4, hc4⟩ := tail4_full pp x _
      refine ⟨_, as4, ?_, ⟨hh, hp⟩, by simpa [hpp] using hp4, ?_, ?_⟩
      · rw [h2, he]; simp only [signProof, hpp]; rw [he4]; simp
      · intro rr ss hv
        rw [h2'] at hv; simp only [signProof, hpp] at hv
        exact ⟨hs x hx, by rw [hs4 rr ss hv]⟩
      · intro resp rr ss hlast hrop hder _ hpf
        rw [h2']
        simp only [signProof, hpp]
        have hne : as4 ≠ [] := ne_nil_of_proof (p := a.proof) (by rw [hpp]; exact hpf)
        rw [lastAnswer_shift _ ht w _ as4 he hne] at hlast
        injection hpf with hpf
        exact hc4 resp rr ss hlast hrop hder hpf.symm

/-- steps 2, 3 and 4 with the converse -/
theorem tail2_full (a : SignAuthArgs) (req1 : Nat) (w : World) :
    ∃ as2 as3 as4, (signTail2 a req1 w).evs = (as2 ++ as3 ++ as4).map Ev.apdu ∧
      PartOf OP_BTC_TX ((btcPayload a).getD []) as2 ∧ PartOf OP_TX_RECEIPT a.receipt as3 ∧
      PartOf OP_MERKLE_PROOF ((proofPayload a.proof).getD []) as4 ∧
      (∀ rr ss, (signTail2 a req1 w).val = .ok (.sig rr ss) →
        btcPayload a = some (payloads as2) ∧ payloads as3 = a.receipt ∧
        proofPayload a.proof = some (payloads as4)) ∧
      (∀ resp rr ss, lastAnswer w.script ((as2 ++ as3 ++ as4).map Ev.apdu) = some (.data resp) →
        resp[2]? = some OP_SUCCESS → Der.parse (resp.drop 3) = some (rr, ss) →
        btcPayload a = some (payloads as2) → payloads as3 = a.receipt →
        proofPayload a.proof = some (payloads as4) →
        (signTail2 a req1 w).val = .ok (.sig rr ss)) := by
  unfold signTail2
  cases hb : btcPayload a with
  | none =>
    exact ⟨[], [], [], rfl, partOf_nil _ _, partOf_nil _ _, partOf_nil _ _, fun rr ss hv => by simp at hv,
      fun resp rr ss _ _ _ hbp _ _ => by cases hbp⟩
  | some p =>
    simp only
    obtain ⟨he, hh, hp, hs⟩ := chunkStep_explicit OP_BTC_TX [OP_TX_RECEIPT] p req1
      Generated.signAuthorized_1 nextSize (fun r w => (nextSize_silent r).evs w) w
    have ht := chunkStep_tracks OP_BTC_TX [OP_TX_RECEIPT] p req1 Generated.signAuthorized_1 nextSize nextSize_tracks
    rcases (step_then _ (signTail3 a) w) with ⟨h1, h1'⟩ | ⟨x, hx, h2, h2'⟩
    · exact ⟨_, [], [], by rw [h1, he]; simp, ⟨hh, by simpa using hp⟩, partOf_nil _ _, partOf_nil _ _,
        fun rr ss hv => absurd hv (h1' rr ss),
        fun resp rr ss _ _ _ _ _ hpf => absurd rfl (ne_nil_of_proof hpf)⟩
    · obtain ⟨as3, as4, he3, hp3, hp4, hs3, hc3⟩ := tail3_full a x _
      refine ⟨_, as3, as4, ?_, ⟨hh, by simpa using hp⟩, hp3, hp4, ?_, ?_⟩
      · rw [h2, he, he3]; simp
      · intro rr ss hv
        rw [h2'] at hv
        obtain ⟨r3, r4⟩ := hs3 rr ss hv
        exact ⟨by rw [hs x hx], r3, r4⟩
      · intro resp rr ss hlast hrop hder _ h3 hpf
        rw [h2']
        have hne : as3 ++ as4 ≠ [] := by
          have := ne_nil_of_proof hpf
          intro h; exact this (List.append_eq_nil_iff.1 h).2
        rw [List.append_assoc, lastAnswer_shift _ ht w _ (as3 ++ as4) he hne] at hlast
        exact hc3 resp rr ss hlast hrop hder h3 hpf

theorem signStep1_tracks' (a : SignAuthArgs) : Tracks (signStep1 a) := signStep1_tracks a

/-- the whole of `sign_authorized` with the converse -/
theorem signAuthorized_full (a : SignAuthArgs) (w : World) :
    ∃ as1 as2 as3 as4 : List Bytes,
      (signAuthorized a w).evs = (as1 ++ as2 ++ as3 ++ as4).map Ev.apdu ∧
      (as1 = [] ∨ as1 = [pathMsg a]) ∧
      PartOf OP_BTC_TX ((btcPayload a).getD []) as2 ∧ PartOf OP_TX_RECEIPT a.receipt as3 ∧
      PartOf OP_MERKLE_PROOF ((proofPayload a.proof).getD []) as4 ∧
      (∀ rr ss, (signAuthorized a w).val = .ok (.sig rr ss) →
        as1 = [pathMsg a] ∧ btcPayload a = some (payloads as2) ∧ payloads as3 = a.receipt ∧
        proofPayload a.proof = some (payloads as4)) ∧
      (∀ resp rr ss, lastAnswer w.script ((as1 ++ as2 ++ as3 ++ as4).map Ev.apdu) = some (.data resp) →
        resp[2]? = some OP_SUCCESS → Der.parse (resp.drop 3) = some (rr, ss) →
        btcPayload a = some (payloads as2) → payloads as3 = a.receipt →
        proofPayload a.proof = some (payloads as4) →
        (signAuthorized a w).val = .ok (.sig rr ss)) := by
  unfold signAuthorized
  split
  · exact ⟨[], [], [], [], rfl, Or.inl rfl, partOf_nil _ _, partOf_nil _ _, partOf_nil _ _,
      fun rr ss hv => by simp [M.throw'] at hv,
      fun resp rr ss _ _ _ _ _ hpf => absurd rfl (ne_nil_of_proof hpf)⟩
  · have h1e := signStep1_evs a w
    rcases step_then (signStep1 a) (signTail2 a) w with ⟨h1, h1'⟩ | ⟨x, hx, h2, h2'⟩
    · exact ⟨[pathMsg a], [], [], [], by rw [h1, h1e]; rfl, Or.inr rfl, partOf_nil _ _, partOf_nil _ _,
        partOf_nil _ _, fun rr ss hv => absurd hv (h1' rr ss),
        fun resp rr ss _ _ _ _ _ hpf => absurd rfl (ne_nil_of_proof hpf)⟩
    · obtain ⟨as2, as3, as4, he, hp2, hp3, hp4, hs, hc⟩ := tail2_full a x (signStep1 a w).w
      refine ⟨[pathMsg a], as2, as3, as4, ?_, Or.inr rfl, hp2, hp3, hp4, ?_, ?_⟩
      · rw [h2, h1e, he]; simp
      · intro rr ss hv
        rw [h2'] at hv
        exact ⟨rfl, hs rr ss hv⟩
      · intro resp rr ss hlast hrop hder hb h3 hpf
        rw [h2']
        have hne : as2 ++ as3 ++ as4 ≠ [] := by
          have := ne_nil_of_proof hpf
          intro h; exact this (List.append_eq_nil_iff.1 h).2
        have hassoc : [pathMsg a] ++ as2 ++ as3 ++ as4 = [pathMsg a] ++ (as2 ++ as3 ++ as4) := by simp
        rw [hassoc, lastAnswer_shift _ (signStep1_tracks a) w [pathMsg a] _ (by rw [h1e]; rfl) hne] at hlast
        exact hc resp rr ss hlast hrop hder hb h3 hpf

end Dongle
end PowHsm
