/-
  Lemmas about `_send_data_in_chunks` for every script (every device chunk policy).
-/
import PowHsm.Dongle.Chunks
namespace PowHsm
namespace Dongle

/-- the payload of an APDU that carries `CLA cmd op` in front -/
def payload (apdu : Bytes) : Bytes := apdu.drop 3

def payloads (as : List Bytes) : Bytes := (as.map payload).flatten

@[simp] theorem payloads_nil : payloads [] = [] := rfl
@[simp] theorem payloads_cons (a : Bytes) (as : List Bytes) :
    payloads (a :: as) = payload a ++ payloads as := by simp [payloads]
@[simp] theorem payload_mk (c d o : UInt8) (p : Bytes) : payload (c :: d :: o :: p) = p := rfl

theorem slice_append_take (data : Bytes) (o a k : Nat) :
    slice data o a ++ (data.drop (o + (slice data o a).length)).take k
      = (data.drop o).take ((slice data o a).length + k) := by
  unfold slice
  rw [← List.drop_drop]
  generalize data.drop o = d
  rw [List.take_add]
  congr 1
  simp
  
theorem sendChunksAux_shape (cmd op : UInt8) (nexts : List UInt8) (data : Bytes) (full : Bool)
    (s : List Resp) : ∀ (offset req : Nat),
    (∀ a ∈ (sendChunksAux cmd op nexts data full offset req s).2.1,
        a.take 3 = [CLA, cmd, op]) ∧
    ∃ k, payloads (sendChunksAux cmd op nexts data full offset req s).2.1
        = (data.drop offset).take k := by
  induction s with
  | nil =>
    intro offset req
    exact ⟨by simp [sendChunksAux], req, by simp [sendChunksAux, slice]⟩
  | cons r rest ih =>
    intro offset req
    have base : ∃ k, slice data offset req = (data.drop offset).take k := ⟨req, rfl⟩
    unfold sendChunksAux
    dsimp only
    repeat' split
    all_goals first
      | exact ⟨by simp, by simpa using base⟩
      | skip
    rename_i n _
    obtain ⟨h1, k, h2⟩ := ih (offset + (slice data offset req).length) n.toNat
    refine ⟨?_, (slice data offset req).length + k, ?_⟩
    · intro a ha
      simp only [List.mem_cons] at ha
      rcases ha with rfl | ha
      · simp
      · exact h1 a ha
    · simp only [payloads_cons, payload_mk]
      rw [h2, slice_append_take]

end Dongle
end PowHsm
