/-
  Lemmas about `_send_data_in_chunks` for every script (every device chunk policy).
-/
import PowHsm.Dongle.Chunks
namespace PowHsm
namespace Dongle

/-- the payload of an APDU that carries `CLA cmd op` in front -/
def payload (apdu : Bytes) : Bytes := apdu.drop 3

def payloads (as : List Bytes) : Bytes := (as.map payload).flatten

@[simp] theorem payloads_nil : payloads [] = [] := rfl
@[simp] theorem payloads_cons (a : Bytes) (as : List Bytes) :
    payloads (a :: as) = payload a ++ payloads as := by simp [payloads]
@[simp] theorem payload_mk (c d o : UInt8) (p : Bytes) : payload (c :: d :: o :: p) = p := rfl

theorem slice_append_take (data : Bytes) (o a k : Nat) :
    slice data o a ++ (data.drop (o + (slice data o a).length)).take k
      = (data.drop o).take ((slice data o a).length + k) := by
  unfold slice
  rw [← List.drop_drop]
  generalize data.drop o = d
  rw [List.take_add]
  congr 1
  simp
  
theorem sendChunksAux_shape (cmd op : UInt8) (nexts : List UInt8) (data : Bytes) (full : Bool)
    (s : List Resp) : ∀ (offset req : Nat),
    (∀ a ∈ (sendChunksAux cmd op nexts data full offset req s).2.1,
        a.take 3 = [CLA, cmd, op]) ∧
    ∃ k, payloads (sendChunksAux cmd op nexts data full offset req s).2.1
        = (data.drop offset).take k := by
  induction s with
  | nil =>
    intro offset req
    exact ⟨by simp [sendChunksAux], req, by simp [sendChunksAux, slice]⟩
  | cons r rest ih =>
    intro offset req
    have base : ∃ k, slice data offset req = (data.drop offset).take k := ⟨req, rfl⟩
    unfold sendChunksAux
    dsimp only
    repeat' split
    all_goals first
      | exact ⟨by simp, by simpa using base⟩
      | skip
    rename_i n _
    obtain ⟨h1, k, h2⟩ := ih (offset + (slice data offset req).length) n.toNat
    refine ⟨?_, (slice data offset req).length + k, ?_⟩
    · intro a ha
      simp only [List.mem_cons] at ha
      rcases ha with rfl | ha
      · simp
      · exact h1 a ha
    · simp only [payloads_cons, payload_mk]
      rw [h2, slice_append_take]

/-- When the loop reports success, the device's last answer names one of the expected next
    operations (not the current one); and if all data was required, all of it was sent. -/
theorem sendChunksAux_ok (cmd op : UInt8) (nexts : List UInt8) (data : Bytes) (full : Bool)
    (s : List Resp) : ∀ (offset req : Nat) (resp : Bytes),
    (sendChunksAux cmd op nexts data full offset req s).1 = .ok (true, resp) →
    (∃ rop, resp[2]? = some rop ∧ rop ∈ nexts ∧ rop ≠ op) ∧
    (full = true → offset ≤ data.length →
      payloads (sendChunksAux cmd op nexts data full offset req s).2.1 = data.drop offset) := by
  induction s with
  | nil => intro offset req resp h; simp [sendChunksAux] at h
  | cons r rest ih =>
    intro offset req resp
    unfold sendChunksAux
    dsimp only
    repeat' split
    all_goals try (intro h; simp at h; done)
    · -- finished, everything sent
      rename_i resp' _ _ rop hrop hin hne hfull
      intro h
      simp only [Except.ok.injEq, Prod.mk.injEq, true_and] at h
      subst h
      refine ⟨⟨rop, hrop, ?_, ?_⟩, ?_⟩
      · simp at hin hne
        exact hin hne
      · simpa using hne
      · intro hf hle
        simp only [payloads_cons, payload_mk, payloads_nil, List.append_nil]
        simp only [hf, Bool.true_and, decide_eq_true_eq, Nat.not_lt] at hfull
        unfold slice at hfull ⊢
        simp only [List.length_take, List.length_drop] at hfull
        apply List.take_of_length_le
        simp only [List.length_drop]
        omega
    · -- continue
      rename_i n _
      intro h
      obtain ⟨h1, h2⟩ := ih (offset + (slice data offset req).length) n.toNat resp h
      refine ⟨h1, ?_⟩
      intro hf hle
      simp only [payloads_cons, payload_mk]
      rw [h2 hf (by unfold slice; simp; omega)]
      have hlen : (slice data offset req).length = min req (data.length - offset) := by
        unfold slice; simp
      rw [hlen]
      unfold slice
      by_cases hc : req ≤ data.length - offset
      · rw [Nat.min_eq_left hc, ← List.drop_drop]
        exact List.take_append_drop req (data.drop offset)
      · have hc' : data.length - offset ≤ req := by omega
        rw [Nat.min_eq_right hc']
        rw [List.take_of_length_le (by simp; omega)]
        have : offset + (data.length - offset) = data.length := by omega
        rw [this]; simp

end Dongle
end PowHsm
