/-
  `base64.b64decode (base64.b64encode b) = b` for the model's codec (Admin/Pem.lean): the X.509
  elements of a version-2 certificate keep their DER bytes through `to_dict` / `from_dict`
  (`message` is the base64 text of `_message`), for certificates of any length.
-/
import PowHsm.Admin.Pem
namespace PowHsm
namespace Pem

theorem sextet_b64Char : ∀ n : Fin 64, sextet? (b64Char n.val) = some n.val := by decide +kernel

theorem b64Char_ne_pad : ∀ n : Fin 64, (b64Char n.val != '=') = true := by decide +kernel

/-- the sextets and the number of padding characters `encode` produces -/
def encBody : Bytes → List Nat
  | a :: b :: c :: rest =>
    let n := a.toNat * 65536 + b.toNat * 256 + c.toNat
    (n / 262144) :: (n / 4096 % 64) :: (n / 64 % 64) :: (n % 64) :: encBody rest
  | [a, b] =>
    let n := a.toNat * 65536 + b.toNat * 256
    [n / 262144, n / 4096 % 64, n / 64 % 64]
  | [a] =>
    let n := a.toNat * 65536
    [n / 262144, n / 4096 % 64]
  | [] => []

def encPads : Bytes → Nat
  | _ :: _ :: _ :: rest => encPads rest
  | [_, _] => 1
  | [_] => 2
  | [] => 0

theorem encode_eq : ∀ b : Bytes, encode b = (encBody b).map b64Char ++ List.replicate (encPads b) '='
  | a :: b :: c :: rest => by
    have ih := encode_eq rest
    simp only [encode, encBody, encPads, List.map_cons, List.cons_append, ih]
  | [a, b] => by simp [encode, encBody, encPads, List.replicate]
  | [a] => by simp [encode, encBody, encPads, List.replicate]
  | [] => by simp [encode, encBody, encPads]

theorem encBody_lt : ∀ (b : Bytes), ∀ s ∈ encBody b, s < 64
  | a :: b :: c :: rest => by
    have ih := encBody_lt rest
    intro s hs
    simp only [encBody, List.mem_cons] at hs
    have ha := a.toNat_lt; have hb := b.toNat_lt; have hc := c.toNat_lt
    rcases hs with rfl | rfl | rfl | rfl | hs
    · omega
    · omega
    · omega
    · omega
    · exact ih s hs
  | [a, b] => by
    intro s hs
    have ha := a.toNat_lt; have hb := b.toNat_lt
    simp only [encBody, List.mem_cons, List.mem_nil_iff, or_false] at hs
    rcases hs with rfl | rfl | rfl <;> omega
  | [a] => by
    intro s hs
    have ha := a.toNat_lt
    simp only [encBody, List.mem_cons, List.mem_nil_iff, or_false] at hs
    rcases hs with rfl | rfl <;> omega
  | [] => by intro s hs; cases hs

theorem decodeSextets_enc : ∀ (b : Bytes), decodeSextets (encBody b) (encPads b) = some b
  | a :: b :: c :: rest => by
    have ih := decodeSextets_enc rest
    have ha := a.toNat_lt; have hb := b.toNat_lt; have hc := c.toNat_lt
    simp only [encBody, decodeSextets, encPads, ih, Option.map_some]
    have e : (a.toNat * 65536 + b.toNat * 256 + c.toNat) / 262144 * 262144 +
        (a.toNat * 65536 + b.toNat * 256 + c.toNat) / 4096 % 64 * 4096 +
        (a.toNat * 65536 + b.toNat * 256 + c.toNat) / 64 % 64 * 64 +
        (a.toNat * 65536 + b.toNat * 256 + c.toNat) % 64 = a.toNat * 65536 + b.toNat * 256 + c.toNat := by omega
    rw [e]
    have e1 : (a.toNat * 65536 + b.toNat * 256 + c.toNat) / 65536 = a.toNat := by omega
    have e2 : (a.toNat * 65536 + b.toNat * 256 + c.toNat) / 256 % 256 = b.toNat := by omega
    have e3 : (a.toNat * 65536 + b.toNat * 256 + c.toNat) % 256 = c.toNat := by omega
    rw [e1, e2, e3]
    simp
  | [a, b] => by
    have ha := a.toNat_lt; have hb := b.toNat_lt
    simp only [encBody, decodeSextets, encPads]
    have e : (a.toNat * 65536 + b.toNat * 256) / 262144 * 262144 +
        (a.toNat * 65536 + b.toNat * 256) / 4096 % 64 * 4096 +
        (a.toNat * 65536 + b.toNat * 256) / 64 % 64 * 64 = a.toNat * 65536 + b.toNat * 256 := by omega
    rw [e]
    have e1 : (a.toNat * 65536 + b.toNat * 256) / 65536 = a.toNat := by omega
    have e2 : (a.toNat * 65536 + b.toNat * 256) / 256 % 256 = b.toNat := by omega
    rw [e1, e2]
    simp
  | [a] => by
    have ha := a.toNat_lt
    simp only [encBody, decodeSextets, encPads]
    have e : (a.toNat * 65536) / 262144 * 262144 + (a.toNat * 65536) / 4096 % 64 * 4096 = a.toNat * 65536 := by omega
    rw [e]
    have e1 : (a.toNat * 65536) / 65536 = a.toNat := by omega
    rw [e1]
    simp
  | [] => rfl

theorem filterMap_sextets (ss : List Nat) (h : ∀ s ∈ ss, s < 64) : (ss.map b64Char).filterMap sextet? = ss := by
  induction ss with
  | nil => rfl
  | cons s rest ih =>
    have hs : s < 64 := h s (by simp)
    have := sextet_b64Char ⟨s, hs⟩
    simp only [List.map_cons, List.filterMap_cons, this]
    rw [ih (fun x hx => h x (by simp [hx]))]

theorem takeWhile_pads (k : Nat) : (List.replicate k '=').takeWhile (· != '=') = [] := by
  cases k <;> simp [List.replicate]

theorem dropWhile_pads (k : Nat) : (List.replicate k '=').dropWhile (· != '=') = List.replicate k '=' := by
  cases k <;> simp [List.replicate]

/-- **base64 round trip**: decoding the encoding of any byte string gives it back -/
theorem decode_encode (b : Bytes) : decode (encode b) = some b := by
  have hlt := encBody_lt b
  have hall : ∀ c ∈ (encBody b).map b64Char, (c != '=') = true := by
    intro c hc
    obtain ⟨s, hs, rfl⟩ := List.mem_map.1 hc
    exact b64Char_ne_pad ⟨s, hlt s hs⟩
  unfold decode
  rw [encode_eq]
  simp only
  rw [List.takeWhile_append_of_pos hall, List.dropWhile_append_of_pos hall, takeWhile_pads, dropWhile_pads,
    List.append_nil, filterMap_sextets _ hlt]
  have : List.countP (· == '=') (List.replicate (encPads b) '=') = encPads b := by
    simp [List.countP_replicate]
  rw [this]
  exact decodeSextets_enc b

end Pem
end PowHsm
