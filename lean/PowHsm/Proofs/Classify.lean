/-
  C02, at the level of the gate and the validators: what `comm/protocol.py` refuses, and with which
  code, against `Spec.C02.judge` — the reading of docs/protocol.md / docs/protocol-v1.md.
-/
import PowHsm.Spec.C02
import PowHsm.Ledger.Protocol
import PowHsm.Proofs.Monad
namespace PowHsm
namespace Classify
open Ledger Comm Spec Spec.C02 Generated

theorem codes_generic (m : Mode) :
    (codes m).invalidRequest = (generic m).request ∧ (codes m).wrongVersion = (generic m).version ∧
    (codes m).commandUnknown = (generic m).unknown ∧ (codes m).version = (generic m).expected ∧
    (codes m).commands = commandsOf m := by
  cases m <;> decide

/-- the command is one of the protocol's -/
def knownCmd (m : Mode) (cmd : Json) : Bool :=
  match cmd with
  | .str s => (commandsOf m).contains s
  | _ => false

/-- the documented field rules of the command -/
def fzOf (m : Mode) (cmd : Json) (kvs : List (String × Json)) : List (Int × Zone) :=
  match cmd with
  | .str s => if knownCmd m cmd then fieldZones m s kvs else []
  | _ => []

/-- the last step of the gate: the command has to be one of the protocol's -/
def cmdStep (c : Codes) (cmd : Json) : Except Int String :=
  match cmd with
  | .str name => if !c.commands.contains name then .error c.commandUnknown else .ok name
  | _ => .error c.commandUnknown

theorem cmdStep_error (m : Mode) (cmd : Json) (e : Int) (h : cmdStep (codes m) cmd = .error e) :
    e = (generic m).unknown ∧ knownCmd m cmd = false := by
  obtain ⟨_, _, hunk, _, hcmds⟩ := codes_generic m
  unfold cmdStep at h
  unfold knownCmd
  cases cmd <;> simp only at h
  all_goals first
    | (injection h with h; exact ⟨by rw [← h, hunk], rfl⟩)
    | skip
  rename_i name
  split at h
  · rename_i h3
    injection h with h
    exact ⟨by rw [← h, hunk], by rw [← hcmds]; simpa using h3⟩
  · cases h

theorem cmdStep_ok (m : Mode) (cmd : Json) (name : String) (h : cmdStep (codes m) cmd = .ok name) :
    cmd = .str name ∧ (commandsOf m).contains name = true := by
  obtain ⟨_, _, _, _, hcmds⟩ := codes_generic m
  unfold cmdStep at h
  cases cmd <;> simp only at h
  all_goals first
    | (cases h; done)
    | skip
  rename_i s
  split at h
  · cases h
  · rename_i h3
    injection h with h
    subst h
    exact ⟨rfl, by rw [← hcmds]; simpa using h3⟩

/-- the version rule of the documents -/
def versionZone (m : Mode) (v : Option Json) : Zone :=
  match v with
  | none => .valid
  | some (.int n) => if n == (generic m).expected then .valid else .invalid
  | some v => if v.pyEqInt (generic m).expected then .unspec else .invalid

theorem versionZone_invalid_iff (m : Mode) (v : Json) :
    versionZone m (some v) = .invalid ↔ v.pyEqInt (generic m).expected = false := by
  cases v <;> simp only [versionZone]
  case int n => simp only [Json.pyEqInt]; cases h : (n == (generic m).expected) <;> simp
  all_goals (cases hp : Json.pyEqInt _ (generic m).expected <;> simp)

/-- `gate`, step by step -/
theorem gate_eq (c : Codes) (kvs : List (String × Json)) :
    gate c kvs = match Json.lookup kvs "command" with
      | none => .error c.invalidRequest
      | some cmd =>
        if !(cmd.pyEqStr "version") && (Json.lookup kvs "version").isNone then .error c.invalidRequest
        else match Json.lookup kvs "version" with
          | some v => if !(v.pyEqInt c.version) then .error c.wrongVersion else cmdStep c cmd
          | none => cmdStep c cmd := by
  unfold gate cmdStep
  cases Json.lookup kvs "command" with
  | none => rfl
  | some cmd =>
    simp only
    cases Json.lookup kvs "version" with
    | none => simp only []; rfl
    | some v => simp only []; rfl

/-- `judge` for an object with a command, with its parts named -/
theorem judge_obj (m : Mode) (kvs : List (String × Json)) (cmd : Json)
    (hc : Json.lookup kvs "command" = some cmd) :
    judge m (.obj kvs) =
      let noVersion := (Json.lookup kvs "version").isNone && !(cmd.pyEqStr "version")
      let vz := versionZone m (Json.lookup kvs "version")
      let known := knownCmd m cmd
      let fz := fzOf m cmd kvs
      ((if noVersion then [(generic m).request] else []) ++ (if vz != .valid then [(generic m).version] else [])
        ++ (if !known then [(generic m).unknown] else []) ++ (fz.filter (·.2 != .valid)).map (·.1),
       noVersion || vz == .invalid || !known || fz.any (·.2 == .invalid)) := by
  unfold judge versionZone fzOf knownCmd
  simp only [hc]
  cases Json.lookup kvs "version" with
  | none => cases cmd <;> rfl
  | some v => cases v <;> cases cmd <;> rfl

/-- **the generic gate refuses only what the documents name, with the code they name**: a missing
    command or version → the invalid-request code; a version that is not the protocol's → the
    wrong-version code; a command that is not one of the protocol's → the unknown-command code -/
theorem gate_refusal_allowed (m : Mode) (kvs : List (String × Json)) (e : Int)
    (h : gate (codes m) kvs = .error e) : e ∈ (judge m (.obj kvs)).1 := by
  obtain ⟨hreq, hver, hunk, hexp, hcmds⟩ := codes_generic m
  rw [gate_eq] at h
  cases hc : Json.lookup kvs "command" with
  | none =>
    simp only [hc] at h
    injection h with h
    unfold judge
    simp [hc, ← h, hreq]
  | some cmd =>
    simp only [hc] at h
    rw [judge_obj m kvs cmd hc]
    simp only
    split at h
    · rename_i h1
      injection h with h
      have h1' : ((Json.lookup kvs "version").isNone && !cmd.pyEqStr "version") = true := by
        rw [Bool.and_comm]; exact h1
      simp [h1', ← h, hreq]
    · cases hv : Json.lookup kvs "version" with
      | none =>
        simp only [hv] at h
        obtain ⟨he, hk⟩ := cmdStep_error m cmd e h
        simp [hk, he]
      | some v =>
        simp only [hv] at h
        split at h
        · rename_i h2
          injection h with h
          rw [hexp] at h2
          have hz : versionZone m (some v) = .invalid := (versionZone_invalid_iff m v).2 (by simpa using h2)
          simp [hz, ← h, hver]
        · obtain ⟨he, hk⟩ := cmdStep_error m cmd e h
          simp [hk, he]

/-- **what the generic gate lets through** is a command of the protocol with a version the documents
    do not forbid; from there on only the command's own field rules decide -/
theorem gate_pass (m : Mode) (kvs : List (String × Json)) (name : String)
    (h : gate (codes m) kvs = .ok name) :
    Json.lookup kvs "command" = some (.str name) ∧ (commandsOf m).contains name = true ∧
    (judge m (.obj kvs)).2 = (fieldZones m name kvs).any (·.2 == .invalid) ∧
    ∀ c z, (c, z) ∈ fieldZones m name kvs → z ≠ .valid → c ∈ (judge m (.obj kvs)).1 := by
  obtain ⟨hreq, hver, hunk, hexp, hcmds⟩ := codes_generic m
  rw [gate_eq] at h
  cases hc : Json.lookup kvs "command" with
  | none => simp only [hc] at h; cases h
  | some cmd =>
    simp only [hc] at h
    split at h
    · cases h
    · rename_i h1
      have hnov : ((Json.lookup kvs "version").isNone && !cmd.pyEqStr "version") = false := by
        rw [Bool.and_comm]
        cases hb : (!cmd.pyEqStr "version" && (Json.lookup kvs "version").isNone)
        · rfl
        · exact absurd hb h1
      -- the version zone is not `invalid`, and the command is known
      have key : versionZone m (Json.lookup kvs "version") ≠ .invalid ∧ cmdStep (codes m) cmd = .ok name := by
        cases hv : Json.lookup kvs "version" with
        | none => simp only [hv] at h; exact ⟨by simp [versionZone], h⟩
        | some v =>
          simp only [hv] at h
          split at h
          · cases h
          · rename_i h2
            rw [hexp] at h2
            refine ⟨fun hz => ?_, h⟩
            have := (versionZone_invalid_iff m v).1 hz
            simp [this] at h2
      obtain ⟨hvz, hstep⟩ := key
      obtain ⟨hcmd, hknown⟩ := cmdStep_ok m cmd name hstep
      subst hcmd
      have hk : knownCmd m (.str name) = true := hknown
      have hfz : fzOf m (.str name) kvs = fieldZones m name kvs := by simp [fzOf, hk]
      refine ⟨rfl, hknown, ?_, ?_⟩
      · rw [judge_obj m kvs _ hc]
        simp only [hnov, hk, hfz]
        cases hz : versionZone m (Json.lookup kvs "version") <;> simp_all
      · intro c z hmem hz
        rw [judge_obj m kvs _ hc]
        simp only [hfz]
        apply List.mem_append_right
        exact List.mem_map.2 ⟨(c, z), List.mem_filter.2 ⟨hmem, by simpa using hz⟩, rfl⟩

/-! ### the field rules of the commands whose verdict does not depend on a transaction or a block -/

theorem mapM_some_all {α β : Type} {f : α → Option β} :
    ∀ (l : List α) (l' : List β), l.mapM f = some l' → ∀ a ∈ l, (f a).isSome = true := by
  intro l
  induction l with
  | nil => intro l' _ a ha; cases ha
  | cons x xs ih =>
    intro l' h a ha
    rw [List.mapM_cons] at h
    cases hfx : f x with
    | none => simp [hfx] at h
    | some b =>
      cases hrest : xs.mapM f with
      | none => simp [hfx, hrest] at h
      | some bs =>
        rcases List.mem_cons.1 ha with rfl | ha'
        · simp [hfx]
        · exact ih bs hrest a ha'

theorem parseElement_decimal (e : List Char) (h : (Bip32.parseElement e).isSome = true) :
    Py.isDecimal (if e.getLast? == some '\'' then e.dropLast else e) = true := by
  unfold Bip32.parseElement at h
  by_cases hq : (e.getLast? == some '\'') = true
  · simp only [hq, if_true] at h ⊢
    cases hd : Py.isDecimal e.dropLast with
    | true => rfl
    | false => simp [hd] at h
  · simp only [hq, Bool.false_eq_true, if_false] at h ⊢
    cases hd : Py.isDecimal e with
    | true => rfl
    | false => simp [hd] at h

/-- a key id the validator accepts is written in the documents' path grammar -/
theorem parsePath_grammar (s : String) (p : List Nat) (h : Bip32.parsePath s = some p) :
    pathGrammar s = true := by
  unfold Bip32.parsePath at h
  simp only at h
  split at h
  · cases h
  · split at h
    · cases h
    · rename_i htake
      split at h
      · cases h
      · rename_i els hm
        unfold pathGrammar
        simp only [Bool.and_eq_true, List.all_eq_true]
        refine ⟨by simpa using htake, fun e he => ?_⟩
        exact parseElement_decimal e (mapM_some_all _ _ hm e he)

/-- udValue: what the documents call valid is accepted; what is accepted is not forbidden -/
theorem hexOfLen_sound (v : Json) (n : Nat) (exact : Bool) :
    (hexOfLenZone v n exact = .valid → hexStrOfLength n v = true) ∧
    (hexStrOfLength n v = true → hexOfLenZone v n exact ≠ .invalid) := by
  cases v <;> simp [hexOfLenZone, hexStrOfLength, Py.isHexOfLength]
  rename_i s
  cases hf : Py.fromHex s with
  | none => simp
  | some b =>
    by_cases hb : b.length = n
    · simp [hb]; split <;> simp
    · simp [hb]; split <;> simp

theorem udValue_sound (v : Json) (n : Nat) :
    (hexOfLenZone v n true = .valid → hexStrOfLength n v = true) ∧
    (hexStrOfLength n v = true → hexOfLenZone v n true ≠ .invalid) := hexOfLen_sound v n true

theorem keyId_accept_not_invalid (c : Codes) (kvs : List (String × Json)) (p : List Nat)
    (h : validateKeyId c kvs = .ok p) : keyIdZone kvs ≠ .invalid := by
  unfold validateKeyId at h
  unfold keyIdZone
  cases hl : Json.lookup kvs "keyId" with
  | none => simp [hl] at h
  | some v =>
    cases v <;> simp [hl] at h
    rename_i s
    cases hp : Bip32.parsePath s with
    | none => simp [hp] at h
    | some q =>
      have hg := parsePath_grammar s q hp
      simp only
      split
      · simp
      · simp [hg]

theorem keyId_refusal (c : Codes) (kvs : List (String × Json)) (e : Int)
    (h : validateKeyId c kvs = .error e) : e = c.invalidKeyId ∧ keyIdZone kvs ≠ .valid := by
  unfold validateKeyId at h
  unfold keyIdZone
  cases hl : Json.lookup kvs "keyId" with
  | none => simp [hl] at h; exact ⟨h.symm, by simp⟩
  | some v =>
    cases v <;> simp [hl] at h <;> try exact ⟨h.symm, by simp⟩
    rename_i s
    cases hp : Bip32.parsePath s with
    | some p => simp [hp] at h
    | none =>
      simp [hp] at h
      refine ⟨h.symm, ?_⟩
      by_cases hd : documentedPaths.contains s = true
      · exfalso
        simp only [documentedPaths, List.contains_cons, List.contains_nil, Bool.or_false,
          Bool.or_eq_true, beq_iff_eq] at hd
        rcases hd with rfl | rfl | rfl | rfl | rfl | rfl <;> revert hp <;> decide
      · have hd' : ¬ s ∈ documentedPaths := by simpa using hd
        simp only [List.contains_eq_mem, hd', decide_false]
        by_cases hg : pathGrammar s = true <;> simp [hg]

theorem ud_refusal (c : Codes) (kvs : List (String × Json)) (n : Nat) (h : validateUd c kvs n ≠ 0) :
    validateUd c kvs n = c.invalidUd ∧ hexOfLenZone ((Json.lookup kvs "udValue").getD .null) n true ≠ .valid := by
  unfold validateUd at h ⊢
  cases hl : Json.lookup kvs "udValue" with
  | none => simp [hexOfLenZone]
  | some v =>
    simp only [hl] at h ⊢
    cases hh : hexStrOfLength n v with
    | true => simp [hh] at h
    | false =>
      refine ⟨by simp, fun hz => ?_⟩
      have := (udValue_sound v n).1 (by simpa using hz)
      rw [hh] at this; cases this

theorem ud_zero_or (c : Codes) (kvs : List (String × Json)) (n : Nat) :
    validateUd c kvs n = 0 ∨ validateUd c kvs n = c.invalidUd := by
  unfold validateUd
  cases Json.lookup kvs "udValue" with
  | none => right; rfl
  | some v => simp only; split <;> simp

theorem ud_accept (c : Codes) (kvs : List (String × Json)) (n : Nat) (hc : c.invalidUd ≠ 0)
    (h : validateUd c kvs n = 0) :
    hexOfLenZone ((Json.lookup kvs "udValue").getD .null) n true ≠ .invalid := by
  unfold validateUd at h
  cases hl : Json.lookup kvs "udValue" with
  | none => simp [hl] at h; exact absurd h hc
  | some v =>
    simp only [hl] at h
    cases hh : hexStrOfLength n v with
    | false => simp [hh] at h; exact absurd h hc
    | true => simpa using (udValue_sound v n).2 hh

/-- **every command of protocol version 1, and every command of version 5 but `sign`,
    `advanceBlockchain` and `updateAncestorBlock`, is classified as the documents prescribe, for every
    JSON object**: a refusal by the command's validator carries a code
    the documents allow for a field whose value they do not call valid, and what the validator accepts
    the documents do not forbid (`must = false`) -/
theorem simple_commands_classified (m : Mode) (kvs : List (String × Json)) (name : String)
    (hg : gate (codes m) kvs = .ok name)
    (hs : (name = "sign" → m = .v1) ∧ name ≠ "advanceBlockchain" ∧ name ≠ "updateAncestorBlock") :
    (∀ e, validateCmd m name kvs = .error e → e ∈ (judge m (.obj kvs)).1) ∧
    (∀ p, validateCmd m name kvs = .ok p → (judge m (.obj kvs)).2 = false) := by
  obtain ⟨_, hknown, hmust, hmay⟩ := gate_pass m kvs name hg
  obtain ⟨h1, h2, h3⟩ := hs
  rw [hmust]
  have hmem : name ∈ commandsOf m := by simpa using hknown
  cases m with
  | v1 =>
    simp only [commandsOf, List.mem_cons, List.mem_nil_iff, or_false] at hmem
    rcases hmem with rfl | rfl | rfl
    · exact ⟨fun e he => by simp [validateCmd] at he, fun _ _ => by simp [fieldZones]⟩
    · -- sign (version 1): key id and a 32-byte hash
      refine ⟨fun e he => ?_, fun p hp => ?_⟩
      · simp only [validateCmd, validateSign] at he
        cases hk : validateKeyId (codes .v1) kvs with
        | error e' =>
          rw [hk] at he
          injection he with he
          obtain ⟨hcode, hz⟩ := keyId_refusal _ _ _ hk
          refine hmay e (keyIdZone kvs) ?_ hz
          rw [← he, hcode]
          simp only [fieldZones, List.mem_cons, Prod.mk.injEq]
          exact Or.inl ⟨by decide, trivial⟩
        | ok path =>
          rw [hk] at he
          simp only at he
          split at he
          · cases he
          · rename_i hf
            injection he with he
            refine hmay e (hexOfLenZone ((Json.lookup kvs "message").getD .null) 32 false) ?_ ?_
            · rw [← he]
              simp only [fieldZones, List.mem_cons, Prod.mk.injEq, List.mem_nil_iff, or_false]
              exact Or.inr ⟨by decide, trivial⟩
            · intro hz
              unfold hasField at hf
              cases hl : Json.lookup kvs "message" with
              | none => rw [hl] at hz; simp [hexOfLenZone] at hz
              | some v =>
                rw [hl] at hz hf
                have := (hexOfLen_sound v 32 false).1 (by simpa using hz)
                simp [this] at hf
      · simp only [validateCmd, validateSign] at hp
        cases hk : validateKeyId (codes .v1) kvs with
        | error e' => rw [hk] at hp; cases hp
        | ok path =>
          rw [hk] at hp
          simp only at hp
          split at hp
          · rename_i hf
            have hkz := keyId_accept_not_invalid _ _ _ hk
            unfold hasField at hf
            cases hl : Json.lookup kvs "message" with
            | none => rw [hl] at hf; cases hf
            | some v =>
              rw [hl] at hf
              have hmz := (hexOfLen_sound v 32 false).2 hf
              simp [fieldZones, hkz, hl, hmz]
          · cases hp
    · -- getPubKey
      refine ⟨fun e he => ?_, fun p hp => ?_⟩
      · have he' : validateKeyId (codes .v1) kvs = .error e := by simpa [validateCmd] using he
        obtain ⟨hcode, hz⟩ := keyId_refusal _ _ _ he'
        exact hmay e (keyIdZone kvs) (by simp [fieldZones, hcode]; decide) hz
      · have hp' : validateKeyId (codes .v1) kvs = .ok p := by simpa [validateCmd] using hp
        have := keyId_accept_not_invalid _ _ _ hp'
        simp [fieldZones, this]
  | v5 =>
    simp only [commandsOf, List.mem_cons, List.mem_nil_iff, or_false] at hmem
    rcases hmem with rfl | rfl | rfl | rfl | rfl | rfl | rfl | rfl | rfl | rfl
    · exact ⟨fun e he => by simp [validateCmd] at he, fun _ _ => by simp [fieldZones]⟩
    · exact absurd (h1 rfl) (by decide)
    · refine ⟨fun e he => ?_, fun p hp => ?_⟩
      · have he' : validateKeyId (codes .v5) kvs = .error e := by simpa [validateCmd] using he
        obtain ⟨hcode, hz⟩ := keyId_refusal _ _ _ he'
        exact hmay e (keyIdZone kvs) (by simp [fieldZones, hcode]; decide) hz
      · have hp' : validateKeyId (codes .v5) kvs = .ok p := by simpa [validateCmd] using hp
        have := keyId_accept_not_invalid _ _ _ hp'
        simp [fieldZones, this]
    · exact absurd rfl h2
    · exact ⟨fun e he => by simp [validateCmd] at he, fun _ _ => by simp [fieldZones]⟩
    · exact ⟨fun e he => by simp [validateCmd] at he, fun _ _ => by simp [fieldZones]⟩
    · exact absurd rfl h3
    · exact ⟨fun e he => by simp [validateCmd] at he, fun _ _ => by simp [fieldZones]⟩
    · -- signerHeartbeat
      refine ⟨fun e he => ?_, fun p hp => ?_⟩
      · simp only [validateCmd] at he
        split at he
        · rename_i hneg
          injection he with he
          obtain ⟨hcode, hz⟩ := ud_refusal (codes .v5) kvs SIGNER_HBT_UD_VALUE_SIZE (by omega)
          refine hmay e _ ?_ hz
          rw [← he, hcode]
          simp only [fieldZones, List.mem_singleton, Prod.mk.injEq]
          exact ⟨by decide, rfl⟩
        · cases he
      · simp only [validateCmd] at hp
        split at hp
        · cases hp
        · rename_i hnn
          have hz : validateUd (codes .v5) kvs SIGNER_HBT_UD_VALUE_SIZE = 0 := by
            rcases (ud_zero_or (codes .v5) kvs SIGNER_HBT_UD_VALUE_SIZE) with h | h
            · exact h
            · rw [h] at hnn; exact absurd (by decide) hnn
          have := ud_accept (codes .v5) kvs SIGNER_HBT_UD_VALUE_SIZE (by decide) hz
          have hsz : SIGNER_HBT_UD_VALUE_SIZE = 16 := rfl
          rw [hsz] at this
          simp [fieldZones, this]
    · -- uiHeartbeat
      refine ⟨fun e he => ?_, fun p hp => ?_⟩
      · simp only [validateCmd] at he
        split at he
        · rename_i hneg
          injection he with he
          obtain ⟨hcode, hz⟩ := ud_refusal (codes .v5) kvs UI_HBT_UD_VALUE_SIZE (by omega)
          refine hmay e _ ?_ hz
          rw [← he, hcode]
          simp only [fieldZones, List.mem_singleton, Prod.mk.injEq]
          exact ⟨by decide, rfl⟩
        · cases he
      · simp only [validateCmd] at hp
        split at hp
        · cases hp
        · rename_i hnn
          have hz : validateUd (codes .v5) kvs UI_HBT_UD_VALUE_SIZE = 0 := by
            rcases (ud_zero_or (codes .v5) kvs UI_HBT_UD_VALUE_SIZE) with h | h
            · exact h
            · rw [h] at hnn; exact absurd (by decide) hnn
          have := ud_accept (codes .v5) kvs UI_HBT_UD_VALUE_SIZE (by decide) hz
          have hsz : UI_HBT_UD_VALUE_SIZE = 32 := rfl
          rw [hsz] at this
          simp [fieldZones, this]

/-! ### from the validators to what the client observes -/

/-- the observation of a request answered with `{errorcode: e}` and no event -/
def refusalObs (e : Int) (ci : Bool) : LineObs :=
  { reply := errReply e, shutdown := false, events := [], commIssue := ci, exc := "" }

theorem allowed_of_refusal (m : Mode) (j : Json) (e : Int) (ci : Bool) (hne : e ≠ 0)
    (hmay : e ∈ (judge m j).1) : allowedObs m j (refusalObs e ci) = true := by
  unfold allowedObs refusalObs
  simp only [errReply, errorcode?, Json.lookup]
  simp [hne, hmay]

theorem gate_codes_nonzero (m : Mode) :
    (generic m).request ≠ 0 ∧ (generic m).version ≠ 0 ∧ (generic m).unknown ≠ 0 := by
  cases m <;> decide

theorem handleRequest_gate_refusal (m : Mode) (hs : Dongle.Hashes) (kvs : List (String × Json)) (w : World)
    (e : Int) (h : gate (codes m) kvs = .error e) :
    (handleRequest m hs (.obj kvs) w).val = .ok (errReply e) ∧ (handleRequest m hs (.obj kvs) w).evs = [] := by
  simp only [handleRequest, h]
  exact ⟨rfl, rfl⟩

theorem handleRequest_validator_refusal (m : Mode) (hs : Dongle.Hashes) (kvs : List (String × Json)) (w : World)
    (name : String) (e : Int) (h1 : gate (codes m) kvs = .ok name) (h2 : validateCmd m name kvs = .error e) :
    (handleRequest m hs (.obj kvs) w).val = .ok (errReply e) ∧ (handleRequest m hs (.obj kvs) w).evs = [] := by
  simp only [handleRequest, h1, h2]
  exact ⟨rfl, rfl⟩

end Classify
end PowHsm
