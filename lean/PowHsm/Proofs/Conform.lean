/-
  A small program logic for the scripted-environment monad `M`, used to prove that no Python
  exception leaves a command handler while the device keeps to its protocol (C03, C04).

  * `Tracks m`  — `m` consumes exactly one script entry per APDU it emits (every computation of the
    model does; this is what lets conformance of a whole trace be split along a bind);
  * `Safe m Q E` — started without a pending link repair and given answers that conform
    (`Spec.deviceConforms`), `m` leaves the repair flag unset and either returns a value satisfying
    `Q` or raises an exception satisfying `E`.
-/
import PowHsm.Proofs.Emits
import PowHsm.Spec.Line
namespace PowHsm
open Spec Dongle

/-! ### conformance of a trace splits along concatenation -/

theorem pairsConform_append (a b : List Bytes) (s : List Resp) :
    pairsConform (a ++ b) s = (pairsConform a s && pairsConform b (s.drop a.length)) := by
  induction a generalizing s with
  | nil => simp [pairsConform]
  | cons x xs ih =>
    cases s with
    | nil => simp [pairsConform]
    | cons r rs => simp [pairsConform, ih, Bool.and_assoc]

theorem deviceConforms_append (s : List Resp) (e1 e2 : List Ev) :
    deviceConforms s (e1 ++ e2) =
      (deviceConforms s e1 && deviceConforms (s.drop (apdus e1).length) e2) := by
  unfold deviceConforms
  rw [apdus_append, pairsConform_append, List.all_append]
  cases pairsConform (apdus e1) s <;> cases (e1.all fun e => e != Ev.connect false) <;> simp

theorem deviceConforms_nil (s : List Resp) : deviceConforms s [] = true := by
  simp [deviceConforms, apdus, pairsConform]

namespace M

/-! ### `Tracks` -/

/-- one script entry is consumed per APDU emitted -/
def Tracks (m : M α) : Prop := ∀ w, (m w).w.script = w.script.drop (apdus (m w).evs).length

theorem Tracks.pure (a : α) : Tracks (Pure.pure a : M α) := by
  intro w; simp [apdus]

theorem Tracks.throw (e : Exc) : Tracks (throw' e : M α) := by
  intro w; simp [throw', apdus]

theorem Tracks.bind {m : M α} {f : α → M β} (h1 : Tracks m) (h2 : ∀ a, Tracks (f a)) :
    Tracks (m >>= f) := by
  intro w
  rw [bind_apply]
  have t1 := h1 w
  split
  · rename_i a e1 w1 heq
    rw [heq] at t1
    simp only at t1
    have t2 := h2 a w1
    simp only [apdus_append, List.length_append]
    rw [t2, t1, List.drop_drop]
  · rename_i e e1 w1 heq
    rw [heq] at t1
    exact t1

theorem Tracks.seq {m : M α} {k : M β} (h1 : Tracks m) (h2 : Tracks k) : Tracks (m >>= fun _ => k) :=
  Tracks.bind h1 fun _ => h2

theorem Tracks.tryCatchIf {m : M α} {p : Exc → Bool} {h : Exc → M α}
    (h1 : Tracks m) (h2 : ∀ e, Tracks (h e)) : Tracks (tryCatchIf m p h) := by
  intro w
  unfold M.tryCatchIf
  have t1 := h1 w
  split
  · rename_i e e1 w1 heq
    rw [heq] at t1
    simp only at t1
    split
    · have t2 := h2 e w1
      simp only [apdus_append, List.length_append]
      rw [t2, t1, List.drop_drop]
    · exact t1
  · exact t1

theorem Tracks.attempt {m : M α} (h1 : Tracks m) : Tracks (attempt m) := by
  intro w; exact h1 w

theorem Tracks.emit {e : Ev} (h : ∀ b, e ≠ .apdu b) : Tracks (emit e) := by
  intro w
  cases e with
  | apdu b => exact absurd rfl (h b)
  | _ => simp [M.emit, apdus]

theorem Tracks.ite {c : Prop} [Decidable c] {a b : M α} (ha : Tracks a) (hb : Tracks b) :
    Tracks (if c then a else b) := by
  split <;> assumption

theorem Tracks.liftExcept (x : Except Exc α) : Tracks (liftExcept x) := by
  cases x
  · exact Tracks.throw _
  · exact Tracks.pure _

/-! ### `Safe` -/

/-- without a pending repair and with conforming answers, `m` keeps the repair flag unset and
    returns a `Q`-value or raises an `E`-exception -/
def Safe (m : M α) (Q : α → Prop) (E : Exc → Prop) : Prop :=
  ∀ w, w.commIssue = false → deviceConforms w.script (m w).evs = true →
    (m w).w.commIssue = false ∧
      (match (m w).val with
       | .ok a => Q a
       | .error e => E e)

theorem Safe.pure {Q : α → Prop} {E : Exc → Prop} {a : α} (h : Q a) : Safe (Pure.pure a : M α) Q E := by
  intro w hci _; exact ⟨hci, h⟩

theorem Safe.throw {Q : α → Prop} {E : Exc → Prop} {e : Exc} (h : E e) : Safe (throw' e : M α) Q E := by
  intro w hci _; exact ⟨hci, h⟩

theorem Safe.weaken {m : M α} {Q Q' : α → Prop} {E E' : Exc → Prop} (h : Safe m Q E)
    (hq : ∀ a, Q a → Q' a) (he : ∀ e, E e → E' e) : Safe m Q' E' := by
  intro w hci hc
  obtain ⟨h1, h2⟩ := h w hci hc
  refine ⟨h1, ?_⟩
  revert h2
  cases (m w).val with
  | ok a => exact hq a
  | error e => exact he e

theorem Safe.bind {m : M α} {f : α → M β} {Q : α → Prop} {R : β → Prop} {E : Exc → Prop}
    (ht : Tracks m) (hm : Safe m Q E) (hf : ∀ a, Q a → Safe (f a) R E) : Safe (m >>= f) R E := by
  intro w hci hc
  have t1 := ht w
  have s1 := hm w hci
  rw [bind_apply] at hc ⊢
  cases hr : m w with
  | mk v e1 w1 =>
    rw [hr] at t1 s1 hc
    cases v with
    | error e =>
      simp only at hc s1 ⊢
      exact s1 hc
    | ok a =>
      simp only at hc s1 t1 ⊢
      rw [deviceConforms_append, Bool.and_eq_true] at hc
      obtain ⟨q1, q2⟩ := s1 hc.1
      have := hf a q2 w1 q1 (by rw [t1]; exact hc.2)
      exact this

theorem Safe.seq {m : M α} {k : M β} {Q : α → Prop} {R : β → Prop} {E : Exc → Prop}
    (ht : Tracks m) (hm : Safe m Q E) (hk : Safe k R E) : Safe (m >>= fun _ => k) R E :=
  Safe.bind ht hm fun _ _ => hk

theorem Safe.tryCatchIf {m : M α} {p : Exc → Bool} {h : Exc → M α} {Q : α → Prop} {E E' : Exc → Prop}
    (ht : Tracks m) (hm : Safe m Q E) (hh : ∀ e, E e → p e = true → Safe (h e) Q E')
    (hn : ∀ e, E e → p e = false → E' e) : Safe (tryCatchIf m p h) Q E' := by
  intro w hci hc
  have t1 := ht w
  have s1 := hm w hci
  unfold M.tryCatchIf at hc ⊢
  cases hr : m w with
  | mk v e1 w1 =>
    rw [hr] at t1 s1 hc
    cases v with
    | ok a =>
      simp only at hc s1 ⊢
      exact s1 hc
    | error e =>
      simp only at hc s1 t1 ⊢
      cases hp : p e with
      | false =>
        simp only [hp, Bool.false_eq_true, if_false] at hc ⊢
        obtain ⟨q1, q2⟩ := s1 hc
        exact ⟨q1, hn e q2 hp⟩
      | true =>
        simp only [hp, if_true] at hc ⊢
        rw [deviceConforms_append, Bool.and_eq_true] at hc
        obtain ⟨q1, q2⟩ := s1 hc.1
        exact hh e q2 hp w1 q1 (by rw [t1]; exact hc.2)

theorem Safe.attempt {m : M α} {Q : α → Prop} {E : Exc → Prop} (hm : Safe m Q E) :
    Safe (attempt m) (fun r => match r with | .ok a => Q a | .error e => E e) (fun _ => False) := by
  intro w hci hc
  exact hm w hci hc

theorem Safe.ite {c : Prop} [Decidable c] {a b : M α} {Q : α → Prop} {E : Exc → Prop}
    (ha : c → Safe a Q E) (hb : ¬c → Safe b Q E) : Safe (if c then a else b) Q E := by
  split
  · exact ha ‹_›
  · exact hb ‹_›

theorem Safe.emit {e : Ev} {Q : Unit → Prop} {E : Exc → Prop} (hq : Q ()) : Safe (emit e) Q E := by
  intro w hci _; exact ⟨hci, hq⟩

end M

/-! ### the primitives -/
namespace Dongle
open M

theorem exchange_tracks (apdu : Bytes) : Tracks (exchange apdu) := by
  intro w
  unfold exchange
  split
  · rename_i h; simp [apdus, h]
  · rename_i r rest h; simp [apdus, h]

theorem sendCommand_tracks (cmd : UInt8) (data : Bytes) : Tracks (sendCommand cmd data) :=
  exchange_tracks _

theorem idx_tracks (b : Bytes) (i : Nat) : Tracks (idx b i) := by
  unfold idx; split
  · exact Tracks.pure _
  · exact Tracks.throw _

theorem connect_tracks : Tracks connect := by
  intro w
  unfold connect
  split <;> simp [apdus]

theorem disconnect_tracks : Tracks disconnect := Tracks.emit (by intro b h; cases h)

/-- a raised error result, or the expected link drop after asking the running app to exit -/
def ResOrExit (cmd : UInt8) (e : Exc) : Prop :=
  Ledger.isResult e = true ∨ (e = .dongleComm ∧ (cmd.toNat = 0xFF ∨ cmd.toNat = 0xFA))

/-- one exchange with a conforming device: a conforming answer, an error status of the device's
    own range, or (exit commands only) the link drop -/
theorem sendCommand_safe (cmd : UInt8) (data : Bytes) :
    Safe (sendCommand cmd data) (fun r => respConforms (CLA :: cmd :: data) (.data r) = true)
      (ResOrExit cmd) := by
  intro w hci hc
  unfold sendCommand exchange at hc ⊢
  cases hs : w.script with
  | nil => simp [hs, deviceConforms, apdus, pairsConform] at hc
  | cons r rest =>
    simp only [hs] at hc ⊢
    simp only [deviceConforms, apdus, pairsConform, Bool.and_true, List.all_cons, List.all_nil,
      Bool.and_eq_true] at hc
    refine ⟨hci, ?_⟩
    have hr := hc.1
    cases r with
    | data b => simpa [classify] using hr
    | sw x =>
      simp only [respConforms] at hr
      simp [classify, hr, ResOrExit, Ledger.isResult]
    | timeout => simp [respConforms] at hr
    | other => simp [respConforms] at hr
    | writeErr =>
      simp only [respConforms, List.getD_cons_succ, List.getD_cons_zero, Bool.or_eq_true, beq_iff_eq] at hr
      simp only [classify, ResOrExit]
      exact Or.inr ⟨trivial, hr⟩
    | readErr =>
      simp only [respConforms, List.getD_cons_succ, List.getD_cons_zero, Bool.or_eq_true, beq_iff_eq] at hr
      simp only [classify, ResOrExit]
      exact Or.inr ⟨trivial, hr⟩

/-- …for every command other than the two exit commands: no link drop is expected -/
theorem sendCommand_safe' (cmd : UInt8) (data : Bytes) (h : cmd.toNat ≠ 0xFF ∧ cmd.toNat ≠ 0xFA) :
    Safe (sendCommand cmd data) (fun r => respConforms (CLA :: cmd :: data) (.data r) = true)
      (fun e => Ledger.isResult e = true) :=
  (sendCommand_safe cmd data).weaken (fun _ h => h) (by
    intro e he
    rcases he with he | ⟨_, h1 | h2⟩
    · exact he
    · exact absurd h1 h.1
    · exact absurd h2 h.2)

theorem idx_safe {b : Bytes} {i : Nat} {E : Exc → Prop} (h : i < b.length) :
    Safe (idx b i) (fun x => b[i]? = some x) E := by
  unfold idx
  have : b[i]? = some b[i] := List.getElem?_eq_getElem h
  rw [this]
  exact Safe.pure rfl

end Dongle
end PowHsm
