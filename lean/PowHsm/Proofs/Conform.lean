/-
  A small program logic for the scripted-environment monad `M`, used to prove that no Python
  exception leaves a command handler while the device keeps to its protocol (C03, C04).

  * `Tracks m`  — `m` consumes exactly one script entry per APDU it emits (every computation of the
    model does; this is what lets conformance of a whole trace be split along a bind);
  * `Safe m Q E` — started without a pending link repair and given answers that conform
    (`Spec.deviceConforms`), `m` leaves the repair flag unset and either returns a value satisfying
    `Q` or raises an exception satisfying `E`.
-/
import PowHsm.Proofs.Emits
import PowHsm.Spec.Line
namespace PowHsm
open Spec Dongle

/-! ### conformance, optionally with link faults

  `lf = false`: the device keeps to its protocol (`Spec.deviceConforms`).  `lf = true`: in addition
  any exchange may end in a link fault (time-out, write error, read error) — the hypothesis of C11. -/

def isFault : Resp → Bool
  | .timeout | .writeErr | .readErr => true
  | _ => false

def respOk (lf : Bool) (a : Bytes) (r : Resp) : Bool := respConforms a r || (lf && isFault r)

def pairsOk (lf : Bool) : List Bytes → List Resp → Bool
  | [], _ => true
  | _ :: _, [] => false
  | a :: as, r :: rs => respOk lf a r && pairsOk lf as rs

/-- the device kept to its protocol — up to link faults when `lf` — and every connection succeeded -/
def deviceOk (lf : Bool) (script : List Resp) (events : List Ev) : Bool :=
  pairsOk lf (apdus events) script && events.all (fun e => e != .connect false)

theorem pairsOk_false : ∀ (as : List Bytes) (s : List Resp), pairsOk false as s = pairsConform as s := by
  intro as
  induction as with
  | nil => intro s; rfl
  | cons a as ih =>
    intro s
    cases s with
    | nil => rfl
    | cons r rs => simp [pairsOk, pairsConform, respOk, ih]

theorem deviceOk_false (s : List Resp) (e : List Ev) : deviceOk false s e = deviceConforms s e := by
  simp [deviceOk, deviceConforms, pairsOk_false]

/-- a link error as `_send_command` raises it -/
def isLink (e : Exc) : Bool := e == .dongleComm || e == .dongleTimeout

theorem pairsOk_append (lf : Bool) (a b : List Bytes) (s : List Resp) :
    pairsOk lf (a ++ b) s = (pairsOk lf a s && pairsOk lf b (s.drop a.length)) := by
  induction a generalizing s with
  | nil => simp [pairsOk]
  | cons x xs ih =>
    cases s with
    | nil => simp [pairsOk]
    | cons r rs => simp [pairsOk, ih, Bool.and_assoc]

theorem deviceOk_append (lf : Bool) (s : List Resp) (e1 e2 : List Ev) :
    deviceOk lf s (e1 ++ e2) = (deviceOk lf s e1 && deviceOk lf (s.drop (apdus e1).length) e2) := by
  unfold deviceOk
  rw [apdus_append, pairsOk_append, List.all_append]
  cases pairsOk lf (apdus e1) s <;> cases (e1.all fun e => e != Ev.connect false) <;> simp

/-! ### conformance of a trace splits along concatenation -/

theorem pairsConform_append (a b : List Bytes) (s : List Resp) :
    pairsConform (a ++ b) s = (pairsConform a s && pairsConform b (s.drop a.length)) := by
  induction a generalizing s with
  | nil => simp [pairsConform]
  | cons x xs ih =>
    cases s with
    | nil => simp [pairsConform]
    | cons r rs => simp [pairsConform, ih, Bool.and_assoc]

theorem deviceConforms_append (s : List Resp) (e1 e2 : List Ev) :
    deviceConforms s (e1 ++ e2) =
      (deviceConforms s e1 && deviceConforms (s.drop (apdus e1).length) e2) := by
  unfold deviceConforms
  rw [apdus_append, pairsConform_append, List.all_append]
  cases pairsConform (apdus e1) s <;> cases (e1.all fun e => e != Ev.connect false) <;> simp

theorem deviceConforms_nil (s : List Resp) : deviceConforms s [] = true := by
  simp [deviceConforms, apdus, pairsConform]

namespace M

/-! ### `Tracks` -/

/-- one script entry is consumed per APDU emitted -/
def Tracks (m : M α) : Prop := ∀ w, (m w).w.script = w.script.drop (apdus (m w).evs).length

theorem Tracks.pure (a : α) : Tracks (Pure.pure a : M α) := by
  intro w; simp [apdus]

theorem Tracks.throw (e : Exc) : Tracks (throw' e : M α) := by
  intro w; simp [throw', apdus]

theorem Tracks.bind {m : M α} {f : α → M β} (h1 : Tracks m) (h2 : ∀ a, Tracks (f a)) :
    Tracks (m >>= f) := by
  intro w
  rw [bind_apply]
  have t1 := h1 w
  split
  · rename_i a e1 w1 heq
    rw [heq] at t1
    simp only at t1
    have t2 := h2 a w1
    simp only [apdus_append, List.length_append]
    rw [t2, t1, List.drop_drop]
  · rename_i e e1 w1 heq
    rw [heq] at t1
    exact t1

theorem Tracks.seq {m : M α} {k : M β} (h1 : Tracks m) (h2 : Tracks k) : Tracks (m >>= fun _ => k) :=
  Tracks.bind h1 fun _ => h2

theorem Tracks.tryCatchIf {m : M α} {p : Exc → Bool} {h : Exc → M α}
    (h1 : Tracks m) (h2 : ∀ e, Tracks (h e)) : Tracks (tryCatchIf m p h) := by
  intro w
  unfold M.tryCatchIf
  have t1 := h1 w
  split
  · rename_i e e1 w1 heq
    rw [heq] at t1
    simp only at t1
    split
    · have t2 := h2 e w1
      simp only [apdus_append, List.length_append]
      rw [t2, t1, List.drop_drop]
    · exact t1
  · exact t1

theorem Tracks.attempt {m : M α} (h1 : Tracks m) : Tracks (attempt m) := by
  intro w; exact h1 w

theorem Tracks.emit {e : Ev} (h : ∀ b, e ≠ .apdu b) : Tracks (emit e) := by
  intro w
  cases e with
  | apdu b => exact absurd rfl (h b)
  | _ => simp [M.emit, apdus]

theorem Tracks.ite {c : Prop} [Decidable c] {a b : M α} (ha : Tracks a) (hb : Tracks b) :
    Tracks (if c then a else b) := by
  split <;> assumption

theorem Tracks.liftExcept (x : Except Exc α) : Tracks (liftExcept x) := by
  cases x
  · exact Tracks.throw _
  · exact Tracks.pure _

/-! ### `Safe` -/

/-- without a pending repair and with conforming answers (up to link faults when `lf`), `m` keeps
    the repair flag unset and returns a `Q`-value or raises an `E`-exception — or, when `lf`, the
    link error of a faulted exchange -/
def Safe (lf : Bool) (m : M α) (Q : α → Prop) (E : Exc → Prop) : Prop :=
  ∀ w, w.commIssue = false → deviceOk lf w.script (m w).evs = true →
    (m w).w.commIssue = false ∧
      (match (m w).val with
       | .ok a => Q a
       | .error e => E e ∨ (lf = true ∧ isLink e = true))

variable {lf : Bool}

theorem Safe.pure {Q : α → Prop} {E : Exc → Prop} {a : α} (h : Q a) : Safe lf (Pure.pure a : M α) Q E := by
  intro w hci _; exact ⟨hci, h⟩

theorem Safe.throw {Q : α → Prop} {E : Exc → Prop} {e : Exc} (h : E e) : Safe lf (throw' e : M α) Q E := by
  intro w hci _; exact ⟨hci, Or.inl h⟩

theorem Safe.weaken {m : M α} {Q Q' : α → Prop} {E E' : Exc → Prop} (h : Safe lf m Q E)
    (hq : ∀ a, Q a → Q' a) (he : ∀ e, E e → E' e) : Safe lf m Q' E' := by
  intro w hci hc
  obtain ⟨h1, h2⟩ := h w hci hc
  refine ⟨h1, ?_⟩
  revert h2
  cases (m w).val with
  | ok a => exact hq a
  | error e =>
    intro h2
    rcases h2 with h2 | h2
    · exact Or.inl (he e h2)
    · exact Or.inr h2

theorem Safe.bind {m : M α} {f : α → M β} {Q : α → Prop} {R : β → Prop} {E : Exc → Prop}
    (ht : Tracks m) (hm : Safe lf m Q E) (hf : ∀ a, Q a → Safe lf (f a) R E) : Safe lf (m >>= f) R E := by
  intro w hci hc
  have t1 := ht w
  have s1 := hm w hci
  rw [bind_apply] at hc ⊢
  cases hr : m w with
  | mk v e1 w1 =>
    rw [hr] at t1 s1 hc
    cases v with
    | error e =>
      simp only at hc s1 ⊢
      exact s1 hc
    | ok a =>
      simp only at hc s1 t1 ⊢
      rw [deviceOk_append, Bool.and_eq_true] at hc
      obtain ⟨q1, q2⟩ := s1 hc.1
      have := hf a q2 w1 q1 (by rw [t1]; exact hc.2)
      exact this

theorem Safe.seq {m : M α} {k : M β} {Q : α → Prop} {R : β → Prop} {E : Exc → Prop}
    (ht : Tracks m) (hm : Safe lf m Q E) (hk : Safe lf k R E) : Safe lf (m >>= fun _ => k) R E :=
  Safe.bind ht hm fun _ _ => hk

/-- `try … except` whose clause may also catch link errors (`hl`) -/
theorem Safe.tryCatchIf' {m : M α} {p : Exc → Bool} {h : Exc → M α} {Q : α → Prop} {E E' : Exc → Prop}
    (ht : Tracks m) (hm : Safe lf m Q E) (hh : ∀ e, E e → p e = true → Safe lf (h e) Q E')
    (hn : ∀ e, E e → p e = false → E' e)
    (hl : ∀ e, lf = true → isLink e = true → p e = true → Safe lf (h e) Q E') :
    Safe lf (tryCatchIf m p h) Q E' := by
  intro w hci hc
  have t1 := ht w
  have s1 := hm w hci
  unfold M.tryCatchIf at hc ⊢
  cases hr : m w with
  | mk v e1 w1 =>
    rw [hr] at t1 s1 hc
    cases v with
    | ok a =>
      simp only at hc s1 ⊢
      exact s1 hc
    | error e =>
      simp only at hc s1 t1 ⊢
      cases hp : p e with
      | false =>
        simp only [hp, Bool.false_eq_true, if_false] at hc ⊢
        obtain ⟨q1, q2⟩ := s1 hc
        refine ⟨q1, ?_⟩
        rcases q2 with q2 | q2
        · exact Or.inl (hn e q2 hp)
        · exact Or.inr q2
      | true =>
        simp only [hp, if_true] at hc ⊢
        rw [deviceOk_append, Bool.and_eq_true] at hc
        obtain ⟨q1, q2⟩ := s1 hc.1
        rcases q2 with q2 | q2
        · exact hh e q2 hp w1 q1 (by rw [t1]; exact hc.2)
        · exact hl e q2.1 q2.2 hp w1 q1 (by rw [t1]; exact hc.2)

/-- `try … except` whose clause does not catch link errors: they pass through -/
theorem Safe.tryCatchIf {m : M α} {p : Exc → Bool} {h : Exc → M α} {Q : α → Prop} {E E' : Exc → Prop}
    (ht : Tracks m) (hm : Safe lf m Q E) (hh : ∀ e, E e → p e = true → Safe lf (h e) Q E')
    (hn : ∀ e, E e → p e = false → E' e) (hp : ∀ e, isLink e = true → p e = false := by
      intro e he; cases e <;> simp_all [isLink]) :
    Safe lf (tryCatchIf m p h) Q E' :=
  Safe.tryCatchIf' ht hm hh hn fun e _ hl hpe => by rw [hp e hl] at hpe; cases hpe

theorem Safe.attempt {m : M α} {Q : α → Prop} {E : Exc → Prop} (hm : Safe lf m Q E) :
    Safe lf (attempt m) (fun r => match r with
      | .ok a => Q a
      | .error e => E e ∨ (lf = true ∧ isLink e = true)) (fun _ => False) := by
  intro w hci hc
  exact hm w hci hc

theorem Safe.ite {c : Prop} [Decidable c] {a b : M α} {Q : α → Prop} {E : Exc → Prop}
    (ha : c → Safe lf a Q E) (hb : ¬c → Safe lf b Q E) : Safe lf (if c then a else b) Q E := by
  split
  · exact ha ‹_›
  · exact hb ‹_›

theorem Safe.emit {e : Ev} {Q : Unit → Prop} {E : Exc → Prop} (hq : Q ()) : Safe lf (emit e) Q E := by
  intro w hci _; exact ⟨hci, hq⟩

/-! ### `SafeTop`: whole handlers -/

/-- for a whole handler: it returns a `Q`-value — no exception at all, link errors included — and,
    unless link faults were allowed, the repair flag is still unset -/
def SafeTop (lf : Bool) (m : M α) (Q : α → Prop) : Prop :=
  ∀ w, w.commIssue = false → deviceOk lf w.script (m w).evs = true →
    (lf = false → (m w).w.commIssue = false) ∧ ∃ a, (m w).val = .ok a ∧ Q a

theorem SafeTop.pure {Q : α → Prop} {a : α} (h : Q a) : SafeTop lf (Pure.pure a : M α) Q := by
  intro w hci _; exact ⟨fun _ => hci, a, rfl, h⟩

theorem SafeTop.weaken {m : M α} {Q Q' : α → Prop} (h : SafeTop lf m Q) (hq : ∀ a, Q a → Q' a) :
    SafeTop lf m Q' := by
  intro w hci hc
  obtain ⟨h1, a, h2, h3⟩ := h w hci hc
  exact ⟨h1, a, h2, hq a h3⟩

theorem SafeTop.bind_pure {m : M α} {Q : α → Prop} {R : β → Prop} (h : SafeTop lf m Q) (g : α → β)
    (hg : ∀ a, Q a → R (g a)) : SafeTop lf (m >>= fun a => Pure.pure (g a)) R := by
  intro w hci hc
  rw [bind_apply] at hc ⊢
  cases hr : m w with
  | mk v e1 w1 =>
    rw [hr] at hc
    have s1 := h w hci
    rw [hr] at s1
    cases v with
    | error e =>
      simp only at hc s1
      obtain ⟨_, a, h2, _⟩ := s1 hc
      cases h2
    | ok a =>
      simp only [pure_apply, List.append_nil] at hc s1 ⊢
      obtain ⟨h1, a', h2, h3⟩ := s1 hc
      injection h2 with h2
      subst h2
      exact ⟨h1, g a, rfl, hg a h3⟩

/-- sequencing whole handlers needs the flag to stay unset in between: only without link faults -/
theorem SafeTop.bind {m : M α} {f : α → M β} {Q : α → Prop} {R : β → Prop} (hlf : lf = false)
    (ht : Tracks m) (hm : SafeTop lf m Q) (hf : ∀ a, Q a → SafeTop lf (f a) R) : SafeTop lf (m >>= f) R := by
  intro w hci hc
  have t1 := ht w
  have s1 := hm w hci
  rw [bind_apply] at hc ⊢
  cases hr : m w with
  | mk v e1 w1 =>
    rw [hr] at t1 s1 hc
    cases v with
    | error e =>
      simp only at hc s1
      obtain ⟨_, a, h2, _⟩ := s1 hc
      cases h2
    | ok a =>
      simp only at hc s1 t1 ⊢
      rw [deviceOk_append, Bool.and_eq_true] at hc
      obtain ⟨q1, a', q2, q3⟩ := s1 hc.1
      injection q2 with q2
      subst q2
      exact hf a q3 w1 (q1 hlf) (by rw [t1]; exact hc.2)

theorem Safe.toTop {m : M α} {Q : α → Prop} (h : Safe lf m Q (fun _ => False)) (hlf : lf = false) :
    SafeTop lf m Q := by
  intro w hci hc
  obtain ⟨h1, h2⟩ := h w hci hc
  refine ⟨fun _ => h1, ?_⟩
  cases hv : (m w).val with
  | ok a => rw [hv] at h2; exact ⟨a, rfl, h2⟩
  | error e =>
    rw [hv] at h2
    rcases h2 with h2 | h2
    · exact h2.elim
    · rw [hlf] at h2; cases h2.1

end M

/-! ### the primitives -/
namespace Dongle
open M

theorem exchange_tracks (apdu : Bytes) : Tracks (exchange apdu) := by
  intro w
  unfold exchange
  split
  · rename_i h; simp [apdus, h]
  · rename_i r rest h; simp [apdus, h]

theorem sendCommand_tracks (cmd : UInt8) (data : Bytes) : Tracks (sendCommand cmd data) :=
  exchange_tracks _

theorem idx_tracks (b : Bytes) (i : Nat) : Tracks (idx b i) := by
  unfold idx; split
  · exact Tracks.pure _
  · exact Tracks.throw _

theorem connect_tracks : Tracks connect := by
  intro w
  unfold connect
  split <;> simp [apdus]

theorem disconnect_tracks : Tracks disconnect := Tracks.emit (by intro b h; cases h)

/-- a raised error result, or the expected link drop after asking the running app to exit -/
def ResOrExit (cmd : UInt8) (e : Exc) : Prop :=
  Ledger.isResult e = true ∨ (e = .dongleComm ∧ (cmd.toNat = 0xFF ∨ cmd.toNat = 0xFA))

variable {lf : Bool}

/-- one exchange with a conforming device: a conforming answer, an error status of the device's
    own range, or (exit commands only) the link drop; with link faults allowed, also the link error -/
theorem sendCommand_safe (cmd : UInt8) (data : Bytes) :
    Safe lf (sendCommand cmd data) (fun r => respConforms (CLA :: cmd :: data) (.data r) = true)
      (ResOrExit cmd) := by
  intro w hci hc
  unfold sendCommand exchange at hc ⊢
  cases hs : w.script with
  | nil => simp [hs, deviceOk, apdus, pairsOk] at hc
  | cons r rest =>
    simp only [hs] at hc ⊢
    simp only [deviceOk, apdus, pairsOk, Bool.and_true, List.all_cons, List.all_nil,
      Bool.and_eq_true] at hc
    refine ⟨hci, ?_⟩
    have hr := hc.1
    unfold respOk at hr
    cases r with
    | data b => simpa [classify, isFault] using hr
    | sw x =>
      simp only [respConforms, isFault, Bool.and_false, Bool.or_false] at hr
      simp [classify, hr, ResOrExit, Ledger.isResult]
    | timeout =>
      simp only [respConforms, isFault, Bool.and_true, Bool.false_or] at hr
      simp [classify, hr, isLink]
    | other => simp [respConforms, isFault] at hr
    | writeErr =>
      simp only [respConforms, List.getD_cons_succ, List.getD_cons_zero, isFault, Bool.and_true,
        Bool.or_eq_true, beq_iff_eq] at hr
      simp only [classify, ResOrExit]
      rcases hr with hr | hr
      · exact Or.inl (Or.inr ⟨trivial, hr⟩)
      · exact Or.inr ⟨hr, by simp [isLink]⟩
    | readErr =>
      simp only [respConforms, List.getD_cons_succ, List.getD_cons_zero, isFault, Bool.and_true,
        Bool.or_eq_true, beq_iff_eq] at hr
      simp only [classify, ResOrExit]
      rcases hr with hr | hr
      · exact Or.inl (Or.inr ⟨trivial, hr⟩)
      · exact Or.inr ⟨hr, by simp [isLink]⟩

/-- …for every command other than the two exit commands: no link drop is expected -/
theorem sendCommand_safe' (cmd : UInt8) (data : Bytes) (h : cmd.toNat ≠ 0xFF ∧ cmd.toNat ≠ 0xFA) :
    Safe lf (sendCommand cmd data) (fun r => respConforms (CLA :: cmd :: data) (.data r) = true)
      (fun e => Ledger.isResult e = true) :=
  (sendCommand_safe cmd data).weaken (fun _ h => h) (by
    intro e he
    rcases he with he | ⟨_, h1 | h2⟩
    · exact he
    · exact absurd h1 h.1
    · exact absurd h2 h.2)

theorem idx_safe {b : Bytes} {i : Nat} {E : Exc → Prop} (h : i < b.length) :
    Safe lf (idx b i) (fun x => b[i]? = some x) E := by
  unfold idx
  have : b[i]? = some b[i] := List.getElem?_eq_getElem h
  rw [this]
  exact Safe.pure rfl

end Dongle
end PowHsm
