/-
  The walks of the certificate graph: termination and the chain (lemmas behind Props/C16).
-/
import PowHsm.Admin.CertGraph
namespace PowHsm
namespace Cert

theorem lookup_name {els : List Elem} {n : String} {e : Elem} (h : lookup els n = some e) :
    e.name = n ∧ e ∈ els := by
  unfold lookup at h
  have h1 := List.find?_some h
  have h2 := List.mem_of_find?_eq_some h
  exact ⟨by simpa using h1, by simpa using h2⟩

/-- **Termination of the sanity walk** (the `while True` loop with `visited`): the visited
    names are distinct names of elements, so `|elements| + 1 - |visited|` steps of fuel are never
    exhausted.  (Termination proofs are findings: the Python loop terminates on every input.) -/
theorem sanity_never_out_of_fuel (root : String) (els : List Elem) :
    ∀ (fuel : Nat) (visited : List String) (cur : Elem),
      visited.Nodup → (∀ v ∈ visited, v ∈ els.map (·.name)) → cur ∈ els →
      els.length + 1 ≤ fuel + visited.length →
      sanityWalk root els fuel visited cur ≠ .outOfFuel := by
  intro fuel
  induction fuel with
  | zero =>
    intro visited cur hnd hsub _ hlen
    have := List.Nodup.length_le_of_subset hnd (fun x hx => hsub x hx)
    simp at this hlen
    omega
  | succ fuel ih =>
    intro visited cur hnd hsub hcur hlen
    unfold sanityWalk
    split
    · simp
    · split
      · simp
      · rename_i hvis _
        split
        · simp
        · rename_i parent hp
          apply ih
          · rw [List.nodup_append]
            refine ⟨hnd, by simp, ?_⟩
            intro a ha b hb
            simp at hb; subst hb
            intro hab; subst hab
            simp at hvis; exact hvis ha
          · intro v hv
            simp at hv
            rcases hv with hv | hv
            · exact hsub v hv
            · subst hv; exact List.mem_map_of_mem hcur
          · exact (lookup_name hp).2
          · simp; omega

/-- loading terminates: for every target that names an element, the walk ends with a verdict
    (a path to the root, a cycle, or a dangling signer) within `|elements| + 1` steps -/
theorem sanity_walk_terminates (root : String) (els : List Elem) (target : String) (t : Elem)
    (h : lookup els target = some t) :
    sanityWalk root els (els.length + 1) [] t ≠ .outOfFuel :=
  sanity_never_out_of_fuel root els _ [] t List.nodup_nil (by simp) (lookup_name h).2 (by simp)

theorem chainUp_ne_nil (root : String) (els : List Elem) (fuel : Nat) (cur : Elem) (chain : List Elem)
    (h : chainUp root els fuel cur = some chain) : chain ≠ [] := by
  cases fuel with
  | zero => simp [chainUp] at h
  | succ n =>
    unfold chainUp at h
    split at h
    · injection h with h; subst h; simp
    · split at h
      · simp at h
      · simp only [Option.map_eq_some_iff] at h
        obtain ⟨c, _, rfl⟩ := h
        simp

/-- **an accepted certificate has a finite, cycle-free path to the root for the target, and the
    chain walk of validation finds it with the same fuel**: the path's names are distinct, its
    last element is signed by the root. -/
theorem sane_gives_chain (root : String) (els : List Elem) :
    ∀ (fuel : Nat) (visited : List String) (cur : Elem),
      sanityWalk root els fuel visited cur = .ok →
      ∃ chain, chainUp root els fuel cur = some chain ∧
        (chain.getLast?.map (·.signedBy) = some root) ∧
        (∀ e ∈ chain, ¬ e.name ∈ visited) ∧ (chain.map (·.name)).Nodup := by
  intro fuel
  induction fuel with
  | zero => intro visited cur h; simp [sanityWalk] at h
  | succ fuel ih =>
    intro visited cur h
    unfold sanityWalk at h
    unfold chainUp
    split at h
    · simp at h
    · rename_i hvis
      split at h
      · rename_i hroot
        refine ⟨[cur], by simp [hroot], ?_, ?_, by simp⟩
        · simpa using hroot
        · intro e he; simp at he; subst he; simpa using hvis
      · rename_i hroot
        split at h
        · simp at h
        · rename_i parent hp
          obtain ⟨chain, hc, hlast, hvisited, hnd⟩ := ih _ _ h
          refine ⟨cur :: chain, by simp [hroot, hc], ?_, ?_, ?_⟩
          · cases chain with
            | nil => exact absurd rfl (chainUp_ne_nil _ _ _ _ _ hc)
            | cons c cs => simpa [List.getLast?_cons_cons] using hlast
          · intro e he
            simp at he
            rcases he with rfl | he
            · simpa using hvis
            · have := hvisited e he
              simp at this; exact this.1
          · simp only [List.map_cons, List.nodup_cons]
            refine ⟨?_, hnd⟩
            intro hmem
            obtain ⟨e, he, hname⟩ := List.mem_map.mp hmem
            have := hvisited e he
            simp at this
            exact this.2 hname

end Cert
end PowHsm
