/-
  `Safe` for the command handlers of `ledger/protocol.py` / `protocol_v1.py`, the dispatch of
  `comm/protocol.py` and the line handling of `comm/server.py`: against a conforming device, and
  with no link repair pending, no exception leaves `handle_request`.
-/
import PowHsm.Proofs.ConformBlocks
namespace PowHsm
open M Dongle Ledger Generated Tbl Spec Comm

namespace Ledger

/-! ### connection handling -/

theorem connect_safe : Safe connect (fun _ => True) (fun _ => False) := by
  intro w hci hc
  unfold connect at hc ⊢
  split
  · exact ⟨hci, trivial⟩
  · exact ⟨hci, trivial⟩
  · rename_i rest hcs
    simp [hcs, deviceConforms] at hc

theorem ensureConnection_safe : Safe ensureConnection (fun _ => True) (fun _ => False) := by
  intro w hci _
  unfold ensureConnection
  simp [getWorld, M.bind_apply, hci]

theorem waitAndReconnect_safe : Safe waitAndReconnect (fun _ => True) (fun _ => False) := by
  unfold waitAndReconnect
  refine Safe.bind (Tracks.emit (by intro b h; cases h)) (Safe.emit (Q := fun _ => True) trivial) fun _ _ => ?_
  exact Safe.bind disconnect_tracks (Safe.emit (Q := fun _ => True) trivial) fun _ _ => connect_safe

/-! ### the exception maps of the handlers -/

/-- the common `try … except` of the v5 handlers: whatever the body may raise against a
    conforming device is one of the exceptions mapped to the device-error code, and never the
    communication error that would flag a link repair -/
theorem deviceGuard_safe (c : Codes) (wr : Bool) {m : M Out} {E : Exc → Prop} (ht : Tracks m)
    (hm : Safe m (fun _ => True) E)
    (hE : ∀ e, E e → (isError e || isTimeout e || (wr && isResult e)) = true ∧ isComm e = false) :
    Safe (deviceGuard c wr m) (fun _ => True) (fun _ => False) := by
  unfold deviceGuard
  refine Safe.tryCatchIf ht hm ?_ ?_
  · intro e he _
    simp only [(hE e he).2, Bool.false_eq_true, if_false]
    exact Safe.bind (Tracks.pure _) (Safe.pure (Q := fun _ => True) trivial) fun _ _ => Safe.pure trivial
  · intro e he hp
    have h1 := (hE e he).1
    have h2 := (hE e he).2
    cases h3 : isError e <;> cases h4 : isTimeout e <;> cases h5 : isComm e <;> cases h6 : isResult e <;>
      cases wr <;> simp_all

theorem devErr_guard {wr : Bool} (hwr : wr = true) (e : Exc) (he : DevErr e) :
    (isError e || isTimeout e || (wr && isResult e)) = true ∧ isComm e = false := by
  subst hwr
  rcases he with h | h
  · cases e <;> simp [isResult] at h
    simp [isError, isTimeout, isComm, isResult]
  · subst h; simp [isError, isTimeout, isComm, isResult]

theorem dongleError_guard (wr : Bool) (e : Exc) (he : e = .dongleError) :
    (isError e || isTimeout e || (wr && isResult e)) = true ∧ isComm e = false := by
  subst he; simp [isError, isTimeout, isComm, isResult]

theorem signGuard_safe (c : Codes) {m : M SignOut} (k : SignOut → Out) (ht : Tracks m)
    (hm : Safe m (fun _ => True) (fun _ => False)) : Safe (signGuard c m k) (fun _ => True) (fun _ => False) := by
  unfold signGuard
  refine Safe.tryCatchIf (Q := fun _ => True) (E := fun _ => False) ?_ ?_ ?_ ?_
  · exact Tracks.bind ht fun _ => Tracks.pure _
  · exact Safe.bind ht hm fun _ _ => Safe.pure trivial
  · intro e he; exact he.elim
  · intro e he; exact he.elim

/-! ### the handlers -/

theorem getPubkey_safe (c : Codes) (path : List Nat) : Safe (getPubkey c path) (fun _ => True) (fun _ => False) := by
  unfold getPubkey
  refine Safe.tryCatchIf (Q := fun _ => True) (E := fun e => isResult e = true) ?_ ?_ ?_ ?_
  · repeat' tracks_step
  · refine Safe.bind ensureConnection_tracks (ensureConnection_safe.weaken (fun _ h => h) fun _ h => h.elim) fun _ _ => ?_
    exact Safe.bind (getPublicKey_tracks _) (getPublicKey_safe path) fun _ _ => Safe.pure trivial
  · intro e he _
    simp only [he, if_true]
    exact Safe.pure trivial
  · intro e he hp
    simp [he] at hp

theorem validateMessage_tx_input (c : Codes) (req : List (String × Json)) (hc : c.invalidMessage < 0)
    (hv : ¬ validateMessage c req .tx < 0) :
    let msgObj := match Json.lookup req "message" with | some (.obj m) => m | _ => []
    let input : Int := match Json.lookup msgObj "input" with | some (.int n) => n | _ => 0
    0 ≤ input ∧ input < 2 ^ 32 := by
  unfold validateMessage at hv
  split at hv
  · rename_i m hm
    simp only [hm]
    have hin : hasField m "input" (intInRange 0 0xffffffff) = true := by
      cases hno : hasField m "input" (intInRange 0 0xffffffff) with
      | true => rfl
      | false =>
        simp [hno] at hv
        omega
    unfold hasField at hin
    split at hin
    · rename_i v hv2
      unfold intInRange at hin
      split at hin
      · rename_i n
        simp only [hv2]
        simp only [Bool.and_eq_true, decide_eq_true_eq] at hin
        omega
      · cases hin
    · cases hin
  · exact absurd hc hv

theorem signV5_safe (c : Codes) (req : List (String × Json)) (path : List Nat) (hc : c.invalidMessage < 0) :
    Safe (signV5 c req path) (fun _ => True) (fun _ => False) := by
  unfold signV5
  dsimp only
  repeat' split
  all_goals first
    | exact Safe.pure trivial
    | exact signGuard_safe c _ (Tracks.bind ensureConnection_tracks fun _ => signUnauthorized_tracks _ _)
        (Safe.bind ensureConnection_tracks ensureConnection_safe fun _ _ => signUnauthorized_safe _ _)
    | (refine signGuard_safe c _ (Tracks.bind ensureConnection_tracks fun _ => signAuthorized_tracks _)
        (Safe.bind ensureConnection_tracks ensureConnection_safe fun _ _ => signAuthorized_safe _ ?_)
       have hin := validateMessage_tx_input c req hc (by assumption)
       first
         | (simp only [*] at hin; exact hin)
         | (dsimp only; omega))

theorem signV1_safe (c : Codes) (req : List (String × Json)) (path : List Nat) :
    Safe (signV1 c req path) (fun _ => True) (fun _ => False) := by
  unfold signV1
  refine signGuard_safe c _ ?_ ?_
  · exact Tracks.bind ensureConnection_tracks fun _ => signUnauthorized_tracks _ _
  · exact Safe.bind ensureConnection_tracks ensureConnection_safe fun _ _ => signUnauthorized_safe _ _

theorem blockchainState_safe (c : Codes) : Safe (blockchainState c) (fun _ => True) (fun _ => False) := by
  unfold blockchainState
  refine deviceGuard_safe c true (E := DevErr) ?_ ?_ (devErr_guard rfl)
  · repeat' tracks_step
  · refine Safe.bind ensureConnection_tracks (ensureConnection_safe.weaken (fun _ h => h) fun _ h => h.elim) fun _ _ => ?_
    exact Safe.bind getBlockchainState_tracks getBlockchainState_safe fun _ _ => Safe.pure trivial

theorem resetAdvance_safe (c : Codes) : Safe (resetAdvance c) (fun _ => True) (fun _ => False) := by
  unfold resetAdvance
  refine deviceGuard_safe c true (E := DevErr) ?_ ?_ (devErr_guard rfl)
  · repeat' tracks_step
  · refine Safe.bind ensureConnection_tracks (ensureConnection_safe.weaken (fun _ h => h) fun _ h => h.elim) fun _ _ => ?_
    exact Safe.bind resetAdvanceBlockchain_tracks resetAdvanceBlockchain_safe fun _ _ => Safe.pure trivial

theorem blockchainParameters_safe (c : Codes) : Safe (blockchainParameters c) (fun _ => True) (fun _ => False) := by
  unfold blockchainParameters
  refine deviceGuard_safe c true (E := DevErr) ?_ ?_ (devErr_guard rfl)
  · repeat' tracks_step
  · refine Safe.bind ensureConnection_tracks (ensureConnection_safe.weaken (fun _ h => h) fun _ h => h.elim) fun _ _ => ?_
    exact Safe.bind getSignerParameters_tracks getSignerParameters_safe fun _ _ => Safe.pure trivial

/-- a request whose `blocks` list has fewer than 2^32 members (no JSON line can carry more) -/
def BlocksBounded (req : List (String × Json)) : Prop :=
  ∀ bs, Json.lookup req "blocks" = some (.arr bs) → bs.length < 2 ^ 32

theorem strList_blocks_length (req : List (String × Json)) (h : BlocksBounded req) :
    (strList (Json.lookup req "blocks")).length < 2 ^ 32 := by
  unfold strList
  split
  · rename_i xs hx
    simpa using h xs hx
  · simp

theorem advance_safe (hs : Hashes) (c : Codes) (req : List (String × Json)) (hb : BlocksBounded req) :
    Safe (advance hs c req) (fun _ => True) (fun _ => False) := by
  unfold advance
  refine deviceGuard_safe c false (E := fun e => e = .dongleError) ?_ ?_ (dongleError_guard false)
  · repeat' tracks_step
  · refine Safe.bind ensureConnection_tracks (ensureConnection_safe.weaken (fun _ h => h) fun _ h => h.elim) fun _ _ => ?_
    dsimp only
    exact Safe.bind (advanceBlockchain_tracks _ _ _)
      (advanceBlockchain_safe hs _ _ (strList_blocks_length req hb)) fun _ _ => Safe.pure trivial

theorem updateAncestorBlock_safe (hs : Hashes) (c : Codes) (req : List (String × Json)) (hb : BlocksBounded req) :
    Safe (updateAncestorBlock hs c req) (fun _ => True) (fun _ => False) := by
  unfold updateAncestorBlock
  refine deviceGuard_safe c false (E := fun e => e = .dongleError) ?_ ?_ (dongleError_guard false)
  · repeat' tracks_step
  · refine Safe.bind ensureConnection_tracks (ensureConnection_safe.weaken (fun _ h => h) fun _ h => h.elim) fun _ _ => ?_
    exact Safe.bind (updateAncestor_tracks _ _)
      (updateAncestor_safe hs _ (strList_blocks_length req hb)) fun _ _ => Safe.pure trivial

theorem signerHb_safe (c : Codes) (req : List (String × Json)) : Safe (signerHb c req) (fun _ => True) (fun _ => False) := by
  unfold signerHb
  refine deviceGuard_safe c false (E := fun _ => False) ?_ ?_ (fun _ h => h.elim)
  · exact Tracks.bind ensureConnection_tracks fun _ => Tracks.bind (heartbeatRun_tracks _ _ _) fun _ => Tracks.pure _
  · refine Safe.bind ensureConnection_tracks ensureConnection_safe fun _ _ => ?_
    exact Safe.bind (heartbeatRun_tracks _ _ _) (signerHeartbeat_safe _) fun _ _ => Safe.pure trivial

theorem signerHeartbeat_tracks (ud : Bytes) : Tracks (signerHeartbeat ud) := heartbeatRun_tracks _ _ _
theorem uiHeartbeat_tracks (ud : Bytes) : Tracks (uiHeartbeat ud) := heartbeatRun_tracks _ _ _

theorem exitAppLenient_tracks : Tracks exitAppLenient := by
  unfold exitAppLenient; repeat' tracks_step

/-- asking the running app to exit: the link drop is expected and swallowed; an error status
    is passed on to the handler's guard -/
theorem exitAppLenient_safe : Safe exitAppLenient (fun _ => True) (fun e => isResult e = true) := by
  unfold exitAppLenient
  refine Safe.tryCatchIf (Q := fun _ => True) (E := ResOrExit (u8 Command_EXIT_MENU)) exitApp_tracks ?_ ?_ ?_
  · unfold exitApp
    exact Safe.bind (sendCommand_tracks _ _) (sendCommand_safe _ _) fun _ _ => Safe.pure trivial
  · intro e _ _; exact Safe.pure trivial
  · intro e he hp
    rcases he with h | ⟨h, _⟩
    · exact h
    · subst h; simp [isComm] at hp

theorem uiHb_safe (c : Codes) (req : List (String × Json)) : Safe (uiHb c req) (fun _ => True) (fun _ => False) := by
  unfold uiHb
  refine deviceGuard_safe c true (E := fun e => isResult e = true) ?_ ?_
    (fun e he => devErr_guard rfl e (Or.inl he))
  · have := exitAppLenient_tracks
    have := uiHeartbeat_tracks (udBytes req)
    repeat' tracks_step
  · refine Safe.bind ensureConnection_tracks (ensureConnection_safe.weaken (fun _ h => h) fun _ h => h.elim) fun _ _ => ?_
    refine Safe.bind getCurrentMode_tracks getCurrentMode_safe fun initial _ => ?_
    dsimp only
    split
    · exact Safe.pure trivial
    · -- `go`: leave the signer for the UI heartbeat mode
      have hreconnect : Safe waitAndReconnect (fun _ => True) (fun e => isResult e = true) :=
        waitAndReconnect_safe.weaken (fun _ h => h) fun _ h => h.elim
      have hmode : Safe getCurrentMode (fun _ => True) (fun e => isResult e = true) :=
        getCurrentMode_safe.weaken (fun _ _ => trivial) fun _ h => h
      refine Safe.bind (Q := fun _ => True) ?_ ?_ fun r _ => ?_
      · have := exitAppLenient_tracks
        repeat' tracks_step
      · split
        · refine Safe.bind exitAppLenient_tracks exitAppLenient_safe fun _ _ => ?_
          refine Safe.bind waitAndReconnect_tracks hreconnect fun _ _ => ?_
          refine Safe.bind getCurrentMode_tracks hmode fun _ _ => ?_
          split <;> exact Safe.pure trivial
        · exact Safe.pure trivial
      · split
        · exact Safe.pure trivial
        · refine Safe.bind (heartbeatRun_tracks _ _ _)
            ((uiHeartbeat_safe _).weaken (fun _ h => h) fun _ h => h.elim) fun hb _ => ?_
          refine Safe.bind (Q := fun _ => True) ?_ ?_ fun r _ => ?_
          · have := exitAppLenient_tracks
            repeat' tracks_step
          · split
            · refine Safe.bind exitAppLenient_tracks exitAppLenient_safe fun _ _ => ?_
              refine Safe.bind waitAndReconnect_tracks hreconnect fun _ _ => ?_
              refine Safe.bind getCurrentMode_tracks hmode fun _ _ => ?_
              split <;> exact Safe.pure trivial
            · exact Safe.pure trivial
          · split <;> exact Safe.pure trivial

end Ledger
end PowHsm

namespace PowHsm
open M Dongle Ledger Generated Tbl Spec Comm
namespace Ledger

/-! ### `Tracks` for the handlers, the dispatch and the line handling -/

theorem getPubkey_tracks (c : Codes) (path : List Nat) : Tracks (getPubkey c path) := by
  unfold getPubkey; repeat' tracks_step

theorem signGuard_tracks (c : Codes) {m : M SignOut} (k : SignOut → Out) (ht : Tracks m) : Tracks (signGuard c m k) := by
  unfold signGuard; repeat' tracks_step

theorem signV5_tracks (c : Codes) (req : List (String × Json)) (path : List Nat) : Tracks (signV5 c req path) := by
  unfold signV5
  dsimp only
  repeat' split
  all_goals first
    | exact Tracks.pure _
    | exact signGuard_tracks c _ (Tracks.bind ensureConnection_tracks fun _ => signUnauthorized_tracks _ _)
    | exact signGuard_tracks c _ (Tracks.bind ensureConnection_tracks fun _ => signAuthorized_tracks _)

theorem signV1_tracks (c : Codes) (req : List (String × Json)) (path : List Nat) : Tracks (signV1 c req path) := by
  unfold signV1
  exact signGuard_tracks c _ (Tracks.bind ensureConnection_tracks fun _ => signUnauthorized_tracks _ _)

theorem deviceGuard_tracks (c : Codes) (wr : Bool) {m : M Out} (ht : Tracks m) : Tracks (deviceGuard c wr m) := by
  unfold deviceGuard; repeat' tracks_step

theorem blockchainState_tracks (c : Codes) : Tracks (blockchainState c) := by
  unfold blockchainState; refine deviceGuard_tracks c _ ?_; repeat' tracks_step
theorem resetAdvance_tracks (c : Codes) : Tracks (resetAdvance c) := by
  unfold resetAdvance; refine deviceGuard_tracks c _ ?_; repeat' tracks_step
theorem blockchainParameters_tracks (c : Codes) : Tracks (blockchainParameters c) := by
  unfold blockchainParameters; refine deviceGuard_tracks c _ ?_; repeat' tracks_step
theorem advance_tracks (hs : Hashes) (c : Codes) (req : List (String × Json)) : Tracks (advance hs c req) := by
  unfold advance; refine deviceGuard_tracks c _ ?_; repeat' tracks_step
theorem updateAncestorBlock_tracks (hs : Hashes) (c : Codes) (req : List (String × Json)) :
    Tracks (updateAncestorBlock hs c req) := by
  unfold updateAncestorBlock; refine deviceGuard_tracks c _ ?_; repeat' tracks_step
theorem signerHb_tracks (c : Codes) (req : List (String × Json)) : Tracks (signerHb c req) := by
  unfold signerHb; refine deviceGuard_tracks c _ ?_
  exact Tracks.bind ensureConnection_tracks fun _ => Tracks.bind (heartbeatRun_tracks _ _ _) fun _ => Tracks.pure _
theorem uiHb_tracks (c : Codes) (req : List (String × Json)) : Tracks (uiHb c req) := by
  unfold uiHb; refine deviceGuard_tracks c _ ?_
  have := exitAppLenient_tracks
  have := uiHeartbeat_tracks (udBytes req)
  repeat' tracks_step

theorem operate_tracks (m : Mode) (hs : Hashes) (name : String) (kvs : List (String × Json)) (path : List Nat) :
    Tracks (operate m hs name kvs path) := by
  unfold operate
  dsimp only
  split
  · exact Tracks.pure _
  · split
    · exact signV5_tracks _ _ _
    · exact signV1_tracks _ _ _
  · exact getPubkey_tracks _ _
  · exact advance_tracks _ _ _
  · exact resetAdvance_tracks _
  · exact blockchainState_tracks _
  · exact updateAncestorBlock_tracks _ _ _
  · exact blockchainParameters_tracks _
  · exact signerHb_tracks _ _
  · exact uiHb_tracks _ _
  · exact Tracks.throw _

theorem handleRequest_tracks (m : Mode) (hs : Hashes) (j : Json) : Tracks (handleRequest m hs j) := by
  unfold handleRequest
  dsimp only
  repeat' split
  all_goals first
    | exact Tracks.pure _
    | exact Tracks.bind (operate_tracks _ _ _ _ _) fun _ => Tracks.pure _

theorem handleLine_tracks (m : Mode) (hs : Hashes) (p : Parsed) : Tracks (handleLine m hs p) := by
  unfold handleLine
  dsimp only
  split
  · exact Tracks.pure _
  · exact Tracks.pure _
  · refine Tracks.bind (Tracks.attempt (handleRequest_tracks _ _ _)) fun r => ?_
    repeat' split
    all_goals exact Tracks.pure _

/-! ### dispatch -/

theorem codes_invalidMessage_neg (m : Mode) : (codes m).invalidMessage < 0 := by
  cases m <;> decide

theorem gate_ok {c : Codes} {kvs : List (String × Json)} {name : String} (h : gate c kvs = .ok name) :
    c.commands.contains name = true := by
  unfold gate at h
  repeat' split at h
  all_goals first
    | (cases h; done)
    | (cases h; simp_all)

/-- every command the gate lets through has a handler, and none of the handlers lets an exception
    out against a conforming device -/
theorem operate_safe (m : Mode) (hs : Hashes) (name : String) (kvs : List (String × Json)) (path : List Nat)
    (hname : (codes m).commands.contains name = true) (hb : BlocksBounded kvs) :
    Safe (operate m hs name kvs path) (fun _ => True) (fun _ => False) := by
  have hneg := codes_invalidMessage_neg m
  have hmem : name ∈ (codes m).commands := by simpa using hname
  cases m with
  | v5 =>
    simp only [codes, v5_commands, List.mem_cons, List.mem_nil_iff, or_false] at hmem
    rcases hmem with h | h | h | h | h | h | h | h | h | h <;> subst h <;> simp only [operate]
    · exact Safe.pure trivial
    · exact signV5_safe _ _ _ hneg
    · exact getPubkey_safe _ _
    · exact advance_safe _ _ _ hb
    · exact resetAdvance_safe _
    · exact blockchainState_safe _
    · exact updateAncestorBlock_safe _ _ _ hb
    · exact blockchainParameters_safe _
    · exact signerHb_safe _ _
    · exact uiHb_safe _ _
  | v1 =>
    simp only [codes, v1_commands, List.mem_cons, List.mem_nil_iff, or_false] at hmem
    rcases hmem with h | h | h <;> subst h <;> simp only [operate]
    · exact Safe.pure trivial
    · exact signV1_safe _ _ _
    · exact getPubkey_safe _ _

/-- a request whose `blocks` list (if it has one) has fewer than 2^32 members -/
def Bounded (j : Json) : Prop := ∀ kvs, j = .obj kvs → BlocksBounded kvs

/-- **no exception leaves `handle_request`** while no link repair is pending and the device keeps
    to its protocol — for every JSON value, in both protocol modes -/
theorem handleRequest_safe (m : Mode) (hs : Hashes) (j : Json) (hb : Bounded j) :
    Safe (handleRequest m hs j) (fun _ => True) (fun _ => False) := by
  unfold handleRequest
  dsimp only
  split
  · rename_i kvs
    split
    · exact Safe.pure trivial
    · rename_i name hg
      split
      · exact Safe.pure trivial
      · exact Safe.bind (operate_tracks _ _ _ _ _) (operate_safe m hs name kvs _ (gate_ok hg) (hb kvs rfl))
          fun _ _ => Safe.pure trivial
  · exact Safe.pure trivial

/-! ### lines and lifetimes -/

theorem Safe.and_returns {m : M α} {Q P : α → Prop} {E : Exc → Prop} (h : Safe m Q E) (hr : M.Returns P m) :
    Safe m (fun a => Q a ∧ P a) E := by
  intro w hci hc
  obtain ⟨h1, h2⟩ := h w hci hc
  refine ⟨h1, ?_⟩
  have hr' := hr w
  revert h2 hr'
  cases (m w).val with
  | ok a => intro h2 hr'; exact ⟨h2, hr' a rfl⟩
  | error e => intro h2 _; exact h2

def ParsedBounded : Parsed → Prop
  | .ok j => Bounded j
  | _ => True

/-- what a well-served line looks like: no exception left the handler, the reply satisfies `R`,
    the server goes on -/
def Served (R : Json → Prop) (lo : LineOut) : Prop := lo.exc = none ∧ R lo.reply ∧ lo.shutdown = false

theorem handleLine_safe (m : Mode) (hs : Hashes) (p : Parsed) (R : Json → Prop)
    (hR : ∀ j, M.Returns R (handleRequest m hs j)) (hfmt : R (errReply (codes m).formatError))
    (hb : ParsedBounded p) : Safe (handleLine m hs p) (Served R) (fun _ => False) := by
  unfold handleLine
  dsimp only
  split
  · exact Safe.pure ⟨rfl, hfmt, rfl⟩
  · exact Safe.pure ⟨rfl, hfmt, rfl⟩
  · rename_i j
    have hs' := (Safe.and_returns (handleRequest_safe m hs j hb) (hR j)).attempt
    refine Safe.bind (Tracks.attempt (handleRequest_tracks _ _ _)) hs' fun r hr => ?_
    split
    · exact Safe.pure ⟨rfl, hr.2, rfl⟩
    all_goals exact hr.elim

theorem serve_tracks (m : Mode) (hs : Hashes) : ∀ ps, Tracks (serve m hs ps) := by
  intro ps
  induction ps with
  | nil => unfold serve; exact Tracks.pure _
  | cons p ps ih =>
    unfold serve
    refine Tracks.bind (handleLine_tracks _ _ _) fun lo => ?_
    split
    · exact Tracks.pure _
    · exact Tracks.bind ih fun _ => Tracks.pure _

theorem serve_safe (m : Mode) (hs : Hashes) (R : Json → Prop)
    (hR : ∀ j, M.Returns R (handleRequest m hs j)) (hfmt : R (errReply (codes m).formatError)) :
    ∀ ps, (∀ p ∈ ps, ParsedBounded p) →
      Safe (serve m hs ps) (fun los => los.length = ps.length ∧ ∀ lo ∈ los, Served R lo) (fun _ => False) := by
  intro ps
  induction ps with
  | nil => intro _; unfold serve; exact Safe.pure ⟨rfl, by simp⟩
  | cons p ps ih =>
    intro hb
    unfold serve
    refine Safe.bind (handleLine_tracks _ _ _) (handleLine_safe m hs p R hR hfmt (hb p (by simp))) fun lo hlo => ?_
    have hsd : lo.shutdown = false := hlo.2.2
    simp only [hsd, Bool.false_eq_true, if_false]
    refine Safe.bind (serve_tracks _ _ _) (ih fun q hq => hb q (by simp [hq])) fun rest hrest => ?_
    refine Safe.pure ⟨by simp [hrest.1], ?_⟩
    intro x hx
    simp only [List.mem_cons] at hx
    rcases hx with rfl | hx
    · exact hlo
    · exact hrest.2 x hx

end Ledger
end PowHsm
