/-
  `SafeTop` for the command handlers of `ledger/protocol.py` / `protocol_v1.py`, the dispatch of
  `comm/protocol.py` and the line handling of `comm/server.py`: against a conforming device — also one
  whose link may fail at any exchange (`lf`) — and with no link repair pending, no exception leaves
  `handle_request`.
-/
import PowHsm.Proofs.ConformBlocks
namespace PowHsm
open M Dongle Ledger Generated Tbl Spec Comm

namespace Ledger
variable {lf : Bool}

/-! ### connection handling -/

theorem connect_safe : Safe lf connect (fun _ => True) (fun _ => False) := by
  intro w hci hc
  unfold connect at hc ⊢
  split
  · exact ⟨hci, trivial⟩
  · exact ⟨hci, trivial⟩
  · rename_i rest hcs
    simp [hcs, deviceOk] at hc

theorem ensureConnection_safe : Safe lf ensureConnection (fun _ => True) (fun _ => False) := by
  intro w hci _
  unfold ensureConnection
  simp [getWorld, M.bind_apply, hci]

theorem waitAndReconnect_safe : Safe lf waitAndReconnect (fun _ => True) (fun _ => False) := by
  unfold waitAndReconnect
  refine Safe.bind (Tracks.emit (by intro b h; cases h)) (Safe.emit (Q := fun _ => True) trivial) fun _ _ => ?_
  exact Safe.bind disconnect_tracks (Safe.emit (Q := fun _ => True) trivial) fun _ _ => connect_safe

/-! ### the exception maps of the handlers -/

/-- a `try body except …` whose clauses catch everything the body may raise against a conforming
    device — and every link error — answer without touching the device, and flag a repair only
    for a communication error, which the body raises only when link faults are allowed -/
theorem guard_top {m : M Out} {p : Exc → Bool} {h : Exc → M Out} {E : Exc → Prop}
    (ht : Tracks m) (hm : Safe lf m (fun _ => True) E)
    (hp : ∀ e, (E e ∨ isLink e = true) → p e = true)
    (hh : ∀ e w, (E e ∨ isLink e = true) →
      ∃ o, h e w = ⟨.ok o, [], if isComm e then { w with commIssue := true } else w⟩)
    (hE : ∀ e, E e → isComm e = false) :
    SafeTop lf (M.tryCatchIf m p h) (fun _ => True) := by
  intro w hci hc
  have s1 := hm w hci
  unfold M.tryCatchIf at hc ⊢
  cases hr : m w with
  | mk v e1 w1 =>
    rw [hr] at s1 hc
    cases v with
    | ok a =>
      simp only at hc s1 ⊢
      exact ⟨fun _ => (s1 hc).1, a, rfl, trivial⟩
    | error e =>
      simp only at hc s1 ⊢
      cases hpe : p e with
      | false =>
        simp only [hpe, Bool.false_eq_true, if_false] at hc
        obtain ⟨_, q2⟩ := s1 hc
        have : p e = true := hp e (by rcases q2 with q | q; exact Or.inl q; exact Or.inr q.2)
        rw [this] at hpe; cases hpe
      | true =>
        simp only [hpe, if_true] at hc ⊢
        rw [deviceOk_append, Bool.and_eq_true] at hc
        obtain ⟨q1, q2⟩ := s1 hc.1
        have hel : E e ∨ isLink e = true := by rcases q2 with q | q; exact Or.inl q; exact Or.inr q.2
        obtain ⟨o, ho⟩ := hh e w1 hel
        rw [ho]
        refine ⟨?_, o, rfl, trivial⟩
        intro hlf
        have hcomm : isComm e = false := by
          rcases q2 with q | q
          · exact hE e q
          · rw [hlf] at q; cases q.1
        simp [hcomm, q1]

theorem deviceGuard_handler (c : Codes) (e : Exc) (w : World) :
    ∃ o, (do if isComm e then setCommIssue true
             Pure.pure (c.device, ([] : List (String × Json))) : M Out) w =
      ⟨.ok o, [], if isComm e then { w with commIssue := true } else w⟩ := by
  cases hc : isComm e <;> simp [hc, setCommIssue, modifyWorld, M.bind_apply]

theorem link_cases {e : Exc} (h : isLink e = true) : e = .dongleComm ∨ e = .dongleTimeout := by
  cases e <;> simp [isLink] at h ⊢

/-- the common `try … except` of the v5 handlers -/
theorem deviceGuard_top (c : Codes) (wr : Bool) {m : M Out} {E : Exc → Prop} (ht : Tracks m)
    (hm : Safe lf m (fun _ => True) E)
    (hE : ∀ e, E e → (isError e || isTimeout e || (wr && isResult e)) = true ∧ isComm e = false) :
    SafeTop lf (deviceGuard c wr m) (fun _ => True) := by
  unfold deviceGuard
  refine guard_top ht hm ?_ (fun e w _ => deviceGuard_handler c e w) fun e he => (hE e he).2
  intro e he
  rcases he with he | he
  · have := (hE e he).1
    cases h1 : isError e <;> cases h2 : isTimeout e <;> cases h3 : isComm e <;> cases h4 : isResult e <;>
      cases wr <;> simp_all
  · rcases link_cases he with h | h <;> subst h <;> simp [isError, isTimeout, isComm, isResult]

theorem devErr_guard {wr : Bool} (hwr : wr = true) (e : Exc) (he : DevErr e) :
    (isError e || isTimeout e || (wr && isResult e)) = true ∧ isComm e = false := by
  subst hwr
  rcases he with h | h
  · cases e <;> simp [isResult] at h
    simp [isError, isTimeout, isComm, isResult]
  · subst h; simp [isError, isTimeout, isComm, isResult]

theorem dongleError_guard (wr : Bool) (e : Exc) (he : e = .dongleError) :
    (isError e || isTimeout e || (wr && isResult e)) = true ∧ isComm e = false := by
  subst he; simp [isError, isTimeout, isComm, isResult]

theorem signGuard_top (c : Codes) {m : M SignOut} (k : SignOut → Out) (ht : Tracks m)
    (hm : Safe lf m (fun _ => True) (fun _ => False)) : SafeTop lf (signGuard c m k) (fun _ => True) := by
  unfold signGuard
  refine guard_top (E := fun _ => False) (Tracks.bind ht fun _ => Tracks.pure _)
    (Safe.bind ht hm fun _ _ => Safe.pure trivial) ?_ ?_ (fun _ h => h.elim)
  · intro e he
    rcases he with he | he
    · exact he.elim
    · rcases link_cases he with h | h <;> subst h <;> simp [isError, isTimeout, isComm]
  · intro e w he
    rcases he with he | he
    · exact he.elim
    · rcases link_cases he with h | h <;> subst h <;>
        simp [isTimeout, isComm, setCommIssue, modifyWorld, M.bind_apply]

/-! ### the handlers -/

theorem getPubkey_top (c : Codes) (path : List Nat) : SafeTop lf (getPubkey c path) (fun _ => True) := by
  unfold getPubkey
  refine guard_top (E := fun e => isResult e = true) ?_ ?_ ?_ ?_ ?_
  · repeat' tracks_step
  · refine Safe.bind ensureConnection_tracks (ensureConnection_safe.weaken (fun _ h => h) fun _ h => h.elim) fun _ _ => ?_
    exact Safe.bind (getPublicKey_tracks _) (getPublicKey_safe path) fun _ _ => Safe.pure trivial
  · intro e he
    rcases he with he | he
    · simp [he]
    · rcases link_cases he with h | h <;> subst h <;> simp [isError, isTimeout, isComm, isResult]
  · intro e w he
    rcases he with he | he
    · cases e <;> simp [isResult] at he
      simp [isResult, isComm]
    · rcases link_cases he with h | h <;> subst h <;>
        simp [isResult, isTimeout, isComm, setCommIssue, modifyWorld, M.bind_apply]
  · intro e he
    cases e <;> simp [isResult] at he
    simp [isComm]

theorem validateMessage_tx_input (c : Codes) (req : List (String × Json)) (hc : c.invalidMessage < 0)
    (hv : ¬ validateMessage c req .tx < 0) :
    let msgObj := match Json.lookup req "message" with | some (.obj m) => m | _ => []
    let input : Int := match Json.lookup msgObj "input" with | some (.int n) => n | _ => 0
    0 ≤ input ∧ input < 2 ^ 32 := by
  unfold validateMessage at hv
  split at hv
  · rename_i m hm
    simp only [hm]
    have hin : hasField m "input" (intInRange 0 0xffffffff) = true := by
      cases hno : hasField m "input" (intInRange 0 0xffffffff) with
      | true => rfl
      | false =>
        simp [hno] at hv
        omega
    unfold hasField at hin
    split at hin
    · rename_i v hv2
      unfold intInRange at hin
      split at hin
      · rename_i n
        simp only [hv2]
        simp only [Bool.and_eq_true, decide_eq_true_eq] at hin
        omega
      · cases hin
    · cases hin
  · exact absurd hc hv

theorem signV5_top (c : Codes) (req : List (String × Json)) (path : List Nat) (hc : c.invalidMessage < 0) :
    SafeTop lf (signV5 c req path) (fun _ => True) := by
  unfold signV5
  dsimp only
  repeat' split
  all_goals first
    | exact SafeTop.pure trivial
    | exact signGuard_top c _ (Tracks.bind ensureConnection_tracks fun _ => signUnauthorized_tracks _ _)
        (Safe.bind ensureConnection_tracks ensureConnection_safe fun _ _ => signUnauthorized_safe _ _)
    | (refine signGuard_top c _ (Tracks.bind ensureConnection_tracks fun _ => signAuthorized_tracks _)
        (Safe.bind ensureConnection_tracks ensureConnection_safe fun _ _ => signAuthorized_safe _ ?_)
       have hin := validateMessage_tx_input c req hc (by assumption)
       first
         | (simp only [*] at hin; exact hin)
         | (dsimp only; omega))

theorem signV1_top (c : Codes) (req : List (String × Json)) (path : List Nat) :
    SafeTop lf (signV1 c req path) (fun _ => True) := by
  unfold signV1
  refine signGuard_top c _ ?_ ?_
  · exact Tracks.bind ensureConnection_tracks fun _ => signUnauthorized_tracks _ _
  · exact Safe.bind ensureConnection_tracks ensureConnection_safe fun _ _ => signUnauthorized_safe _ _

theorem blockchainState_top (c : Codes) : SafeTop lf (blockchainState c) (fun _ => True) := by
  unfold blockchainState
  refine deviceGuard_top c true (E := DevErr) ?_ ?_ (devErr_guard rfl)
  · repeat' tracks_step
  · refine Safe.bind ensureConnection_tracks (ensureConnection_safe.weaken (fun _ h => h) fun _ h => h.elim) fun _ _ => ?_
    exact Safe.bind getBlockchainState_tracks getBlockchainState_safe fun _ _ => Safe.pure trivial

theorem resetAdvance_top (c : Codes) : SafeTop lf (resetAdvance c) (fun _ => True) := by
  unfold resetAdvance
  refine deviceGuard_top c true (E := DevErr) ?_ ?_ (devErr_guard rfl)
  · repeat' tracks_step
  · refine Safe.bind ensureConnection_tracks (ensureConnection_safe.weaken (fun _ h => h) fun _ h => h.elim) fun _ _ => ?_
    exact Safe.bind resetAdvanceBlockchain_tracks resetAdvanceBlockchain_safe fun _ _ => Safe.pure trivial

theorem blockchainParameters_top (c : Codes) : SafeTop lf (blockchainParameters c) (fun _ => True) := by
  unfold blockchainParameters
  refine deviceGuard_top c true (E := DevErr) ?_ ?_ (devErr_guard rfl)
  · repeat' tracks_step
  · refine Safe.bind ensureConnection_tracks (ensureConnection_safe.weaken (fun _ h => h) fun _ h => h.elim) fun _ _ => ?_
    exact Safe.bind getSignerParameters_tracks getSignerParameters_safe fun _ _ => Safe.pure trivial

/-- a request whose `blocks` list has fewer than 2^32 members (no JSON line can carry more) -/
def BlocksBounded (req : List (String × Json)) : Prop :=
  ∀ bs, Json.lookup req "blocks" = some (.arr bs) → bs.length < 2 ^ 32

theorem strList_blocks_length (req : List (String × Json)) (h : BlocksBounded req) :
    (strList (Json.lookup req "blocks")).length < 2 ^ 32 := by
  unfold strList
  split
  · rename_i xs hx
    simpa using h xs hx
  · simp

theorem advance_top (hs : Hashes) (c : Codes) (req : List (String × Json)) (hb : BlocksBounded req) :
    SafeTop lf (advance hs c req) (fun _ => True) := by
  unfold advance
  refine deviceGuard_top c false (E := fun e => e = .dongleError) ?_ ?_ (dongleError_guard false)
  · repeat' tracks_step
  · refine Safe.bind ensureConnection_tracks (ensureConnection_safe.weaken (fun _ h => h) fun _ h => h.elim) fun _ _ => ?_
    dsimp only
    exact Safe.bind (advanceBlockchain_tracks _ _ _)
      (advanceBlockchain_safe hs _ _ (strList_blocks_length req hb)) fun _ _ => Safe.pure trivial

theorem updateAncestorBlock_top (hs : Hashes) (c : Codes) (req : List (String × Json)) (hb : BlocksBounded req) :
    SafeTop lf (updateAncestorBlock hs c req) (fun _ => True) := by
  unfold updateAncestorBlock
  refine deviceGuard_top c false (E := fun e => e = .dongleError) ?_ ?_ (dongleError_guard false)
  · repeat' tracks_step
  · refine Safe.bind ensureConnection_tracks (ensureConnection_safe.weaken (fun _ h => h) fun _ h => h.elim) fun _ _ => ?_
    exact Safe.bind (updateAncestor_tracks _ _)
      (updateAncestor_safe hs _ (strList_blocks_length req hb)) fun _ _ => Safe.pure trivial

theorem signerHb_top (c : Codes) (req : List (String × Json)) : SafeTop lf (signerHb c req) (fun _ => True) := by
  unfold signerHb
  refine deviceGuard_top c false (E := fun _ => False) ?_ ?_ (fun _ h => h.elim)
  · exact Tracks.bind ensureConnection_tracks fun _ => Tracks.bind (heartbeatRun_tracks _ _ _) fun _ => Tracks.pure _
  · refine Safe.bind ensureConnection_tracks ensureConnection_safe fun _ _ => ?_
    exact Safe.bind (heartbeatRun_tracks _ _ _) (signerHeartbeat_safe _) fun _ _ => Safe.pure trivial

theorem signerHeartbeat_tracks (ud : Bytes) : Tracks (signerHeartbeat ud) := heartbeatRun_tracks _ _ _
theorem uiHeartbeat_tracks (ud : Bytes) : Tracks (uiHeartbeat ud) := heartbeatRun_tracks _ _ _

theorem exitAppLenient_tracks : Tracks exitAppLenient := by
  unfold exitAppLenient; repeat' tracks_step

/-- asking the running app to exit: the link drop is expected and swallowed (a time-out is not);
    an error status is passed on to the handler's guard -/
theorem exitAppLenient_safe : Safe lf exitAppLenient (fun _ => True) (fun e => isResult e = true) := by
  unfold exitAppLenient
  refine Safe.tryCatchIf' (Q := fun _ => True) (E := ResOrExit (u8 Command_EXIT_MENU)) exitApp_tracks ?_ ?_ ?_ ?_
  · unfold exitApp
    exact Safe.bind (sendCommand_tracks _ _) (sendCommand_safe _ _) fun _ _ => Safe.pure trivial
  · intro e _ _; exact Safe.pure trivial
  · intro e he hp
    rcases he with h | ⟨h, _⟩
    · exact h
    · subst h; simp [isComm] at hp
  · intro e _ _ _; exact Safe.pure trivial

theorem uiHb_top (c : Codes) (req : List (String × Json)) : SafeTop lf (uiHb c req) (fun _ => True) := by
  unfold uiHb
  refine deviceGuard_top c true (E := fun e => isResult e = true) ?_ ?_
    (fun e he => devErr_guard rfl e (Or.inl he))
  · have := exitAppLenient_tracks
    have := uiHeartbeat_tracks (udBytes req)
    repeat' tracks_step
  · refine Safe.bind ensureConnection_tracks (ensureConnection_safe.weaken (fun _ h => h) fun _ h => h.elim) fun _ _ => ?_
    refine Safe.bind getCurrentMode_tracks getCurrentMode_safe fun initial _ => ?_
    dsimp only
    split
    · exact Safe.pure trivial
    · have hreconnect : Safe lf waitAndReconnect (fun _ => True) (fun e => isResult e = true) :=
        waitAndReconnect_safe.weaken (fun _ h => h) fun _ h => h.elim
      have hmode : Safe lf getCurrentMode (fun _ => True) (fun e => isResult e = true) :=
        getCurrentMode_safe.weaken (fun _ _ => trivial) fun _ h => h
      refine Safe.bind (Q := fun _ => True) ?_ ?_ fun r _ => ?_
      · have := exitAppLenient_tracks
        repeat' tracks_step
      · split
        · refine Safe.bind exitAppLenient_tracks exitAppLenient_safe fun _ _ => ?_
          refine Safe.bind waitAndReconnect_tracks hreconnect fun _ _ => ?_
          refine Safe.bind getCurrentMode_tracks hmode fun _ _ => ?_
          split <;> exact Safe.pure trivial
        · exact Safe.pure trivial
      · split
        · exact Safe.pure trivial
        · refine Safe.bind (heartbeatRun_tracks _ _ _)
            ((uiHeartbeat_safe _).weaken (fun _ h => h) fun _ h => h.elim) fun hb _ => ?_
          refine Safe.bind (Q := fun _ => True) ?_ ?_ fun r _ => ?_
          · have := exitAppLenient_tracks
            repeat' tracks_step
          · split
            · refine Safe.bind exitAppLenient_tracks exitAppLenient_safe fun _ _ => ?_
              refine Safe.bind waitAndReconnect_tracks hreconnect fun _ _ => ?_
              refine Safe.bind getCurrentMode_tracks hmode fun _ _ => ?_
              split <;> exact Safe.pure trivial
            · exact Safe.pure trivial
          · split <;> exact Safe.pure trivial

end Ledger
end PowHsm

namespace PowHsm
open M Dongle Ledger Generated Tbl Spec Comm
namespace Ledger
variable {lf : Bool}

/-! ### `Tracks` for the handlers, the dispatch and the line handling -/

theorem getPubkey_tracks (c : Codes) (path : List Nat) : Tracks (getPubkey c path) := by
  unfold getPubkey; repeat' tracks_step

theorem signGuard_tracks (c : Codes) {m : M SignOut} (k : SignOut → Out) (ht : Tracks m) : Tracks (signGuard c m k) := by
  unfold signGuard; repeat' tracks_step

theorem signV5_tracks (c : Codes) (req : List (String × Json)) (path : List Nat) : Tracks (signV5 c req path) := by
  unfold signV5
  dsimp only
  repeat' split
  all_goals first
    | exact Tracks.pure _
    | exact signGuard_tracks c _ (Tracks.bind ensureConnection_tracks fun _ => signUnauthorized_tracks _ _)
    | exact signGuard_tracks c _ (Tracks.bind ensureConnection_tracks fun _ => signAuthorized_tracks _)

theorem signV1_tracks (c : Codes) (req : List (String × Json)) (path : List Nat) : Tracks (signV1 c req path) := by
  unfold signV1
  exact signGuard_tracks c _ (Tracks.bind ensureConnection_tracks fun _ => signUnauthorized_tracks _ _)

theorem deviceGuard_tracks (c : Codes) (wr : Bool) {m : M Out} (ht : Tracks m) : Tracks (deviceGuard c wr m) := by
  unfold deviceGuard; repeat' tracks_step

theorem blockchainState_tracks (c : Codes) : Tracks (blockchainState c) := by
  unfold blockchainState; refine deviceGuard_tracks c _ ?_; repeat' tracks_step
theorem resetAdvance_tracks (c : Codes) : Tracks (resetAdvance c) := by
  unfold resetAdvance; refine deviceGuard_tracks c _ ?_; repeat' tracks_step
theorem blockchainParameters_tracks (c : Codes) : Tracks (blockchainParameters c) := by
  unfold blockchainParameters; refine deviceGuard_tracks c _ ?_; repeat' tracks_step
theorem advance_tracks (hs : Hashes) (c : Codes) (req : List (String × Json)) : Tracks (advance hs c req) := by
  unfold advance; refine deviceGuard_tracks c _ ?_; repeat' tracks_step
theorem updateAncestorBlock_tracks (hs : Hashes) (c : Codes) (req : List (String × Json)) :
    Tracks (updateAncestorBlock hs c req) := by
  unfold updateAncestorBlock; refine deviceGuard_tracks c _ ?_; repeat' tracks_step
theorem signerHb_tracks (c : Codes) (req : List (String × Json)) : Tracks (signerHb c req) := by
  unfold signerHb; refine deviceGuard_tracks c _ ?_
  exact Tracks.bind ensureConnection_tracks fun _ => Tracks.bind (heartbeatRun_tracks _ _ _) fun _ => Tracks.pure _
theorem uiHb_tracks (c : Codes) (req : List (String × Json)) : Tracks (uiHb c req) := by
  unfold uiHb; refine deviceGuard_tracks c _ ?_
  have := exitAppLenient_tracks
  have := uiHeartbeat_tracks (udBytes req)
  repeat' tracks_step

theorem operate_tracks (m : Mode) (hs : Hashes) (name : String) (kvs : List (String × Json)) (path : List Nat) :
    Tracks (operate m hs name kvs path) := by
  unfold operate
  dsimp only
  split
  · exact Tracks.pure _
  · split
    · exact signV5_tracks _ _ _
    · exact signV1_tracks _ _ _
  · exact getPubkey_tracks _ _
  · exact advance_tracks _ _ _
  · exact resetAdvance_tracks _
  · exact blockchainState_tracks _
  · exact updateAncestorBlock_tracks _ _ _
  · exact blockchainParameters_tracks _
  · exact signerHb_tracks _ _
  · exact uiHb_tracks _ _
  · exact Tracks.throw _

theorem handleRequest_tracks (m : Mode) (hs : Hashes) (j : Json) : Tracks (handleRequest m hs j) := by
  unfold handleRequest
  dsimp only
  repeat' split
  all_goals first
    | exact Tracks.pure _
    | exact Tracks.bind (operate_tracks _ _ _ _ _) fun _ => Tracks.pure _

theorem handleLine_tracks (m : Mode) (hs : Hashes) (p : Parsed) : Tracks (handleLine m hs p) := by
  unfold handleLine
  dsimp only
  split
  · exact Tracks.pure _
  · exact Tracks.pure _
  · refine Tracks.bind (Tracks.attempt (handleRequest_tracks _ _ _)) fun r => ?_
    repeat' split
    all_goals exact Tracks.pure _

/-! ### dispatch -/

theorem codes_invalidMessage_neg (m : Mode) : (codes m).invalidMessage < 0 := by
  cases m <;> decide

theorem gate_ok {c : Codes} {kvs : List (String × Json)} {name : String} (h : gate c kvs = .ok name) :
    c.commands.contains name = true := by
  unfold gate at h
  repeat' split at h
  all_goals first
    | (cases h; done)
    | (cases h; simp_all)

/-- every command the gate lets through has a handler, and none of the handlers lets an exception
    out against a conforming device, link faults or not -/
theorem operate_top (m : Mode) (hs : Hashes) (name : String) (kvs : List (String × Json)) (path : List Nat)
    (hname : (codes m).commands.contains name = true) (hb : BlocksBounded kvs) :
    SafeTop lf (operate m hs name kvs path) (fun _ => True) := by
  have hneg := codes_invalidMessage_neg m
  have hmem : name ∈ (codes m).commands := by simpa using hname
  cases m with
  | v5 =>
    simp only [codes, v5_commands, List.mem_cons, List.mem_nil_iff, or_false] at hmem
    rcases hmem with h | h | h | h | h | h | h | h | h | h <;> subst h <;> simp only [operate]
    · exact SafeTop.pure trivial
    · exact signV5_top _ _ _ hneg
    · exact getPubkey_top _ _
    · exact advance_top _ _ _ hb
    · exact resetAdvance_top _
    · exact blockchainState_top _
    · exact updateAncestorBlock_top _ _ _ hb
    · exact blockchainParameters_top _
    · exact signerHb_top _ _
    · exact uiHb_top _ _
  | v1 =>
    simp only [codes, v1_commands, List.mem_cons, List.mem_nil_iff, or_false] at hmem
    rcases hmem with h | h | h <;> subst h <;> simp only [operate]
    · exact SafeTop.pure trivial
    · exact signV1_top _ _ _
    · exact getPubkey_top _ _

/-- a request whose `blocks` list (if it has one) has fewer than 2^32 members -/
def Bounded (j : Json) : Prop := ∀ kvs, j = .obj kvs → BlocksBounded kvs

/-- **no exception leaves `handle_request`** while no link repair is pending and the device keeps
    to its protocol — even if the link fails at any exchange (`lf`) — for every JSON value, in both
    protocol modes -/
theorem handleRequest_top (m : Mode) (hs : Hashes) (j : Json) (hb : Bounded j) :
    SafeTop lf (handleRequest m hs j) (fun _ => True) := by
  unfold handleRequest
  dsimp only
  split
  · rename_i kvs
    split
    · exact SafeTop.pure trivial
    · rename_i name hg
      split
      · exact SafeTop.pure trivial
      · exact SafeTop.bind_pure (operate_top m hs name kvs _ (gate_ok hg) (hb kvs rfl)) _ fun _ _ => trivial
  · exact SafeTop.pure trivial

/-! ### lines and lifetimes -/

theorem SafeTop.and_returns {m : M α} {Q P : α → Prop} (h : SafeTop lf m Q) (hr : M.Returns P m) :
    SafeTop lf m (fun a => Q a ∧ P a) := by
  intro w hci hc
  obtain ⟨h1, a, h2, h3⟩ := h w hci hc
  exact ⟨h1, a, h2, h3, hr w a h2⟩

def ParsedBounded : Parsed → Prop
  | .ok j => Bounded j
  | _ => True

/-- what a well-served line looks like: no exception left the handler, the reply satisfies `R`,
    the server goes on -/
def Served (R : Json → Prop) (lo : LineOut) : Prop := lo.exc = none ∧ R lo.reply ∧ lo.shutdown = false

theorem handleLine_top (m : Mode) (hs : Hashes) (p : Parsed) (R : Json → Prop)
    (hR : ∀ j, M.Returns R (handleRequest m hs j)) (hfmt : R (errReply (codes m).formatError))
    (hb : ParsedBounded p) : SafeTop lf (handleLine m hs p) (Served R) := by
  unfold handleLine
  dsimp only
  split
  · exact SafeTop.pure ⟨rfl, hfmt, rfl⟩
  · exact SafeTop.pure ⟨rfl, hfmt, rfl⟩
  · rename_i j
    have ht := SafeTop.and_returns (handleRequest_top (lf := lf) m hs j hb) (hR j)
    intro w hci hc
    rw [M.bind_apply, M.attempt_apply] at hc ⊢
    have hw := ht w hci
    generalize handleRequest m hs j w = q at hc hw ⊢
    obtain ⟨v, e1, w1⟩ := q
    simp only at hc hw ⊢
    cases v with
    | ok r =>
      simp only [M.pure_apply, List.append_nil] at hc ⊢
      obtain ⟨h1, a, h2, _, h4⟩ := hw hc
      injection h2 with h2
      subst h2
      exact ⟨h1, _, rfl, rfl, h4, rfl⟩
    | error e =>
      have hev : deviceOk lf w.script e1 = true := by
        cases e <;> simpa using hc
      obtain ⟨_, a, h2, _⟩ := hw hev
      cases h2

theorem serve_tracks (m : Mode) (hs : Hashes) : ∀ ps, Tracks (serve m hs ps) := by
  intro ps
  induction ps with
  | nil => unfold serve; exact Tracks.pure _
  | cons p ps ih =>
    unfold serve
    refine Tracks.bind (handleLine_tracks _ _ _) fun lo => ?_
    split
    · exact Tracks.pure _
    · exact Tracks.bind ih fun _ => Tracks.pure _

/-- a whole lifetime (no link faults: after one, the next request runs the repair) -/
theorem serve_top (m : Mode) (hs : Hashes) (R : Json → Prop)
    (hR : ∀ j, M.Returns R (handleRequest m hs j)) (hfmt : R (errReply (codes m).formatError)) :
    ∀ ps, (∀ p ∈ ps, ParsedBounded p) →
      SafeTop false (serve m hs ps) (fun los => los.length = ps.length ∧ ∀ lo ∈ los, Served R lo) := by
  intro ps
  induction ps with
  | nil => intro _; unfold serve; exact SafeTop.pure ⟨rfl, by simp⟩
  | cons p ps ih =>
    intro hb
    unfold serve
    refine SafeTop.bind rfl (handleLine_tracks _ _ _) (handleLine_top m hs p R hR hfmt (hb p (by simp))) fun lo hlo => ?_
    have hsd : lo.shutdown = false := hlo.2.2
    simp only [hsd, Bool.false_eq_true, if_false]
    refine SafeTop.bind_pure (ih fun q hq => hb q (by simp [hq])) _ fun rest hrest => ?_
    refine ⟨by simp [hrest.1], ?_⟩
    intro x hx
    simp only [List.mem_cons] at hx
    rcases hx with rfl | hx
    · exact hlo
    · exact hrest.2 x hx

end Ledger
end PowHsm
