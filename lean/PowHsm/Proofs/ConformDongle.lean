/-
  `Safe` for the device-level operations of the model (`ledger/hsm2dongle.py`): against a
  conforming device each of them returns, or raises only what its caller handles.
-/
import PowHsm.Proofs.ConformTracks
import PowHsm.Proofs.Chunks
namespace PowHsm
open M Dongle Ledger Generated Tbl Spec

/-! ### what conformance says about the answers to each command -/

theorem getD_of_getElem? {b : Bytes} {i : Nat} {x : UInt8} (h : b[i]? = some x) : b.getD i 0 = x := by
  simp [List.getD, h]

theorem cmd_mode : (u8 Command_GET_MODE).toNat = 0x43 := by decide
theorem cmd_sign : CMD_SIGN.toNat = 2 := by decide
theorem cmd_pubkey : (u8 Command_GET_PUBLIC_KEY).toNat = 4 := by decide
theorem cmd_state : (u8 Command_GET_STATE).toNat = 0x20 := by decide
theorem cmd_reset : (u8 Command_RESET_AB).toNat = 0x21 := by decide
theorem cmd_params : (u8 Command_GET_PARAMETERS).toNat = 0x11 := by decide
theorem cmd_exit : (u8 Command_EXIT_MENU).toNat = 0xFF := by decide

theorem conf_mode {d b : Bytes} (h : respConforms (CLA :: u8 Command_GET_MODE :: d) (.data b) = true) :
    2 ≤ b.length ∧ ((b.getD 1 0).toNat = 2 ∨ (b.getD 1 0).toNat = 3 ∨ (b.getD 1 0).toNat = 4) := by
  simp only [respConforms, List.getD_cons_succ, List.getD_cons_zero, cmd_mode] at h
  simpa [or_assoc] using h

theorem conf_sign {op : UInt8} {d b : Bytes} (hop : op.toNat = 1 ∨ op.toNat = 2 ∨ op.toNat = 4 ∨ op.toNat = 8)
    (h : respConforms (CLA :: CMD_SIGN :: op :: d) (.data b) = true) :
    3 ≤ b.length ∧
      ((b.getD 2 0).toNat = 2 ∨ (b.getD 2 0).toNat = 4 ∨ (b.getD 2 0).toNat = 8 → 4 ≤ b.length) := by
  simp only [respConforms, List.getD_cons_succ, List.getD_cons_zero, cmd_sign] at h
  rcases hop with h1 | h1 | h1 | h1 <;> simp [h1] at h <;> grind

theorem conf_state {op : UInt8} {d b : Bytes}
    (h : respConforms (CLA :: u8 Command_GET_STATE :: op :: d) (.data b) = true) :
    3 ≤ b.length ∧ ((b.getD 2 0).toNat = 1 → 4 ≤ b.length) := by
  simp only [respConforms, List.getD_cons_succ, List.getD_cons_zero, cmd_state] at h
  simp at h
  grind

theorem conf_reset {d b : Bytes} (h : respConforms (CLA :: u8 Command_RESET_AB :: d) (.data b) = true) :
    3 ≤ b.length := by
  simp only [respConforms, List.getD_cons_succ, List.getD_cons_zero, cmd_reset] at h
  simpa using h

theorem sign_not_exit : CMD_SIGN.toNat ≠ 0xFF ∧ CMD_SIGN.toNat ≠ 0xFA := by decide

namespace Dongle
variable {lf : Bool}

/-! ### generic pieces -/

theorem catchResult_safe {m : M α} {h : Nat → M α} {Q : α → Prop} {E' : Exc → Prop}
    (ht : Tracks m) (hm : Safe lf m Q (fun e => isResult e = true)) (hh : ∀ sw, Safe lf (h sw) Q E') :
    Safe lf (catchResult m h) Q E' := by
  unfold catchResult
  refine Safe.tryCatchIf ht hm ?_ ?_
  · intro e he _
    cases e <;> simp [isResult] at he
    exact hh _
  · intro e he hp
    cases e <;> simp [isResult] at he
    simp at hp

/-- …a variant for bodies that may also raise other exceptions, which pass through -/
theorem catchResult_safe' {m : M α} {h : Nat → M α} {Q : α → Prop} {E E' : Exc → Prop}
    (ht : Tracks m) (hm : Safe lf m Q E) (hh : ∀ sw, Safe lf (h sw) Q E')
    (hpass : ∀ e, E e → isResult e = false → E' e) : Safe lf (catchResult m h) Q E' := by
  unfold catchResult
  refine Safe.tryCatchIf ht hm ?_ ?_
  · intro e _ hp
    cases e <;> simp at hp
    exact hh _
  · intro e he hp
    apply hpass e he
    cases e <;> simp [isResult] at hp ⊢

theorem nextSize_safe {resp : Bytes} {E : Exc → Prop} (h : 4 ≤ resp.length) :
    Safe lf (nextSize resp) (fun _ => True) E := by
  unfold nextSize
  exact Safe.bind (idx_tracks _ _) (idx_safe (E := E) (by omega)) fun _ _ => Safe.pure trivial

/-- the chunked transfer, also recording what a reported success says about the last answer -/
theorem sendChunks_safe_ok (cmd op : UInt8) (nexts : List UInt8) (data : Bytes) (full : Bool) (init : Nat)
    (hx : cmd.toNat ≠ 0xFF ∧ cmd.toNat ≠ 0xFA) (hc : ChunkAnswers cmd op) :
    Safe lf (sendChunks cmd op nexts data full init)
      (fun p => (∃ d, respConforms (CLA :: cmd :: op :: d) (.data p.2) = true) ∧
        (p.1 = true → ∃ rop, p.2[2]? = some rop ∧ rop ∈ nexts))
      (fun e => isResult e = true) := by
  intro w hci hconf
  have h1 := sendChunks_safe cmd op nexts data full init hx hc w hci hconf
  refine ⟨h1.1, ?_⟩
  have h2 := h1.2
  have hok := sendChunksAux_ok cmd op nexts data full w.script 0 init
  unfold sendChunks at h2 ⊢
  generalize sendChunksAux cmd op nexts data full 0 init w.script = r at h2 hok
  obtain ⟨v, as, s'⟩ := r
  simp only at h2 hok ⊢
  cases v with
  | error e => exact h2
  | ok p =>
    refine ⟨h2, ?_⟩
    intro hp
    obtain ⟨okb, resp⟩ := p
    simp only at hp; subst hp
    obtain ⟨⟨rop, h3, h4, _⟩, _⟩ := hok resp rfl
    exact ⟨rop, h3, h4⟩

/-! ### signing -/

theorem op_path : OP_PATH.toNat = 1 := by decide
theorem op_btc : OP_BTC_TX.toNat = 2 := by decide
theorem op_receipt : OP_TX_RECEIPT.toNat = 4 := by decide
theorem op_proof : OP_MERKLE_PROOF.toNat = 8 := by decide

theorem chunkAnswers_sign {op : UInt8} (hop : op.toNat = 2 ∨ op.toNat = 4 ∨ op.toNat = 8) :
    ChunkAnswers CMD_SIGN op := by
  intro d r h
  have hc := conf_sign (Or.inr hop) h
  refine ⟨hc.1, ?_⟩
  intro h2
  apply hc.2
  rw [getD_of_getElem? h2]
  exact hop

theorem signStep1_safe (a : SignAuthArgs) : Safe lf (signStep1 a) (fun _ => True) (fun _ => False) := by
  unfold signStep1
  refine catchResult_safe ?_ ?_ fun _ => Safe.pure trivial
  · repeat' tracks_step
  · refine Safe.bind (sendCommand_tracks _ _) (sendCommand_safe' _ _ sign_not_exit) fun resp hresp => ?_
    have hc := conf_sign (Or.inl op_path) hresp
    refine Safe.bind (idx_tracks _ _) (idx_safe (by omega)) fun rop hrop => ?_
    refine Safe.ite (fun _ => Safe.pure trivial) fun hne => ?_
    apply nextSize_safe
    apply hc.2
    rw [getD_of_getElem? hrop]
    have : rop = OP_BTC_TX := by simpa using hne
    rw [this]; exact Or.inl op_btc

/-- one chunked step: safe whenever its post-processing is safe on the answers it can see -/
theorem chunkStep_safe {β : Type} (op : UInt8) (nexts : List UInt8) (data : Bytes) (init : Nat)
    (rule : List (List Nat × Int) × Int) (post : Bytes → M (Except Int β))
    (hop : op.toNat = 2 ∨ op.toNat = 4 ∨ op.toNat = 8) (hpt : ∀ r, Tracks (post r))
    (hp : ∀ resp, (∃ d, respConforms (CLA :: CMD_SIGN :: op :: d) (.data resp) = true) →
      (∃ rop, resp[2]? = some rop ∧ rop ∈ nexts) →
      Safe lf (post resp) (fun _ => True) (fun e => isResult e = true)) :
    Safe lf (chunkStep op nexts data init rule post) (fun _ => True) (fun _ => False) := by
  unfold chunkStep
  refine catchResult_safe ?_ ?_ fun _ => Safe.pure trivial
  · refine Tracks.bind (sendChunks_tracks _ _ _ _ _ _) fun p => ?_
    dsimp only
    split
    · exact Tracks.pure _
    · exact hpt _
  · refine Safe.bind (sendChunks_tracks _ _ _ _ _ _)
      (sendChunks_safe_ok _ _ _ _ _ _ sign_not_exit (chunkAnswers_sign hop)) fun p hq => ?_
    obtain ⟨okb, resp⟩ := p
    dsimp only
    cases okb with
    | false => exact Safe.pure trivial
    | true => exact hp resp hq.1 (hq.2 rfl)

theorem signTail4_safe (pp : Bytes) (req3 : Nat) : Safe lf (signTail4 pp req3) (fun _ => True) (fun _ => False) := by
  unfold signTail4
  refine Safe.bind (chunkStep_tracks _ _ _ _ _ _ fun _ => Tracks.pure _)
    (chunkStep_safe _ _ _ _ _ _ (Or.inr (Or.inr op_proof)) (fun _ => Tracks.pure _)
      fun _ _ _ => Safe.pure trivial) fun s _ => ?_
  unfold orFail
  split <;> exact Safe.pure trivial

theorem signProof_safe (a : SignAuthArgs) (req3 : Nat) : Safe lf (signProof a req3) (fun _ => True) (fun _ => False) := by
  unfold signProof
  split
  · exact Safe.pure trivial
  · exact signTail4_safe _ _

theorem post_nextSize_safe {op next : UInt8} (hop : op.toNat = 1 ∨ op.toNat = 2 ∨ op.toNat = 4 ∨ op.toNat = 8)
    (hn : next.toNat = 2 ∨ next.toNat = 4 ∨ next.toNat = 8) (resp : Bytes)
    (h1 : ∃ d, respConforms (CLA :: CMD_SIGN :: op :: d) (.data resp) = true)
    (h2 : ∃ rop, resp[2]? = some rop ∧ rop ∈ [next]) :
    Safe lf (nextSize resp) (fun _ => True) (fun e => isResult e = true) := by
  obtain ⟨d, hd⟩ := h1
  obtain ⟨rop, hr, hm⟩ := h2
  have : rop = next := by simpa using hm
  subst this
  apply nextSize_safe
  apply (conf_sign hop hd).2
  rw [getD_of_getElem? hr]; exact hn

theorem signTail3_safe (a : SignAuthArgs) (req2 : Nat) : Safe lf (signTail3 a req2) (fun _ => True) (fun _ => False) := by
  unfold signTail3
  refine Safe.bind (chunkStep_tracks _ _ _ _ _ _ nextSize_tracks)
    (chunkStep_safe _ _ _ _ _ _ (Or.inr (Or.inl op_receipt)) nextSize_tracks
      (post_nextSize_safe (Or.inr (Or.inr (Or.inl op_receipt))) (Or.inr (Or.inr op_proof)))) fun s _ => ?_
  unfold orFail
  split
  · exact Safe.pure trivial
  · exact signProof_safe _ _

theorem signTail2_safe (a : SignAuthArgs) (req1 : Nat) : Safe lf (signTail2 a req1) (fun _ => True) (fun _ => False) := by
  unfold signTail2
  split
  · exact Safe.pure trivial
  · refine Safe.bind (chunkStep_tracks _ _ _ _ _ _ nextSize_tracks)
      (chunkStep_safe _ _ _ _ _ _ (Or.inl op_btc) nextSize_tracks
        (post_nextSize_safe (Or.inr (Or.inl op_btc)) (Or.inr (Or.inl op_receipt)))) fun s _ => ?_
    unfold orFail
    split
    · exact Safe.pure trivial
    · exact signTail3_safe _ _

/-- an authorized signature against a conforming device never raises, provided the input index
    fits in 32 bits (which `_validate_message` guarantees) -/
theorem signAuthorized_safe (a : SignAuthArgs) (hin : 0 ≤ a.input ∧ a.input < 2 ^ 32) :
    Safe lf (signAuthorized a) (fun _ => True) (fun _ => False) := by
  unfold signAuthorized
  split
  · rename_i h; omega
  · refine Safe.bind (signStep1_tracks a) (signStep1_safe a) fun s _ => ?_
    unfold orFail
    split
    · exact Safe.pure trivial
    · exact signTail2_safe _ _

theorem signUnauthorized_safe (path : List Nat) (hash : Option Bytes) :
    Safe lf (signUnauthorized path hash) (fun _ => True) (fun _ => False) := by
  unfold signUnauthorized
  split
  · exact Safe.pure trivial
  · dsimp only
    refine Safe.bind ?_ (Q := fun _ => True) ?_ fun r _ => ?_
    · repeat' tracks_step
    · refine catchResult_safe ?_ ?_ fun _ => Safe.pure trivial
      · repeat' tracks_step
      · refine Safe.bind (sendCommand_tracks _ _) (sendCommand_safe' _ _ sign_not_exit) fun resp hresp => ?_
        have hc := conf_sign (Or.inl op_path) hresp
        refine Safe.bind (idx_tracks _ _) (idx_safe (by omega)) fun rop _ => ?_
        split
        · exact Safe.pure trivial
        · split <;> exact Safe.pure trivial
    · split <;> exact Safe.pure trivial

theorem getPublicKey_safe (path : List Nat) :
    Safe lf (getPublicKey path) (fun _ => True) (fun e => isResult e = true) := by
  unfold getPublicKey
  exact (sendCommand_safe' _ _ (by decide)).weaken (fun _ _ => trivial) fun _ h => h

end Dongle
end PowHsm
