/-
  `Safe` for the query commands, the heartbeats and the block operations of the device layer.
  `DevErr` is what these may raise against a conforming device and what every caller handles:
  an error status of the device's own range, or the layer's own `HSM2DongleError`.
-/
import PowHsm.Proofs.ConformDongle
namespace PowHsm
open M Dongle Ledger Generated Tbl Spec

/-- an error status of the device's own range, or `HSM2DongleError` -/
def DevErr (e : Exc) : Prop := isResult e = true ∨ e = .dongleError

theorem DevErr.ofResult {e : Exc} (h : isResult e = true) : DevErr e := Or.inl h

namespace Dongle
variable {lf : Bool}

theorem mode_not_exit : (u8 Command_GET_MODE).toNat ≠ 0xFF ∧ (u8 Command_GET_MODE).toNat ≠ 0xFA := by decide
theorem state_not_exit : (u8 Command_GET_STATE).toNat ≠ 0xFF ∧ (u8 Command_GET_STATE).toNat ≠ 0xFA := by decide
theorem reset_not_exit : (u8 Command_RESET_AB).toNat ≠ 0xFF ∧ (u8 Command_RESET_AB).toNat ≠ 0xFA := by decide
theorem params_not_exit : (u8 Command_GET_PARAMETERS).toNat ≠ 0xFF ∧ (u8 Command_GET_PARAMETERS).toNat ≠ 0xFA := by decide

/-- `get_current_mode` against a conforming device: one of the three defined modes -/
theorem getCurrentMode_safe :
    Safe lf getCurrentMode (fun m => m = 2 ∨ m = 3 ∨ m = 4) (fun e => isResult e = true) := by
  unfold getCurrentMode
  refine Safe.tryCatchIf (Q := fun m => m = 2 ∨ m = 3 ∨ m = 4) (E := fun e => isResult e = true) ?_ ?_ ?_ ?_
  · repeat' tracks_step
  · refine Safe.bind (sendCommand_tracks _ _) (sendCommand_safe' _ _ mode_not_exit) fun r hr => ?_
    have hc := conf_mode hr
    refine Safe.bind (idx_tracks _ _) (idx_safe (by omega)) fun m hm => ?_
    have hm' := hc.2
    rw [getD_of_getElem? hm] at hm'
    have hcont : (enumMode.map (·.2)).contains (Int.ofNat m.toNat) = true := by
      rcases hm' with h | h | h <;> rw [h] <;> decide
    rw [if_pos hcont]
    exact Safe.pure hm'
  · intro e he hp
    cases e <;> simp [isResult] at he
    simp at hp
  · intro e he _; exact he

theorem getSignerParameters_safe : Safe lf getSignerParameters (fun _ => True) DevErr := by
  unfold getSignerParameters
  refine Safe.bind (sendCommand_tracks _ _)
    ((sendCommand_safe' _ _ params_not_exit).weaken (fun _ h => h) fun _ h => Or.inl h) fun r _ => ?_
  dsimp only
  split
  · exact Safe.throw (Or.inr rfl)
  · split
    · exact Safe.throw (Or.inr rfl)
    · exact Safe.pure trivial

theorem getStateHash_safe (sel : Nat) : Safe lf (getStateHash sel) (fun _ => True) DevErr := by
  unfold getStateHash
  refine Safe.bind (sendCommand_tracks _ _)
    ((sendCommand_safe' _ _ state_not_exit).weaken (fun _ h => h) fun _ h => Or.inl h) fun r hr => ?_
  have hc := conf_state hr
  refine Safe.bind (idx_tracks _ _) (idx_safe (by omega)) fun op hop => ?_
  split
  · exact Safe.throw (Or.inr rfl)
  · rename_i hne
    have hop1 : op = u8 GetStateOps_HASH := by simpa using hne
    have h4 : 4 ≤ r.length := by
      apply hc.2
      rw [getD_of_getElem? hop, hop1]; decide
    refine Safe.bind (idx_tracks _ _) (idx_safe (by omega)) fun s _ => ?_
    split
    · exact Safe.throw (Or.inr rfl)
    · exact Safe.pure trivial

theorem getStateHashes_safe : ∀ l, Safe lf (getStateHashes l) (fun _ => True) DevErr := by
  intro l
  induction l with
  | nil => unfold getStateHashes; exact Safe.pure trivial
  | cons x xs ih =>
    obtain ⟨k, sel⟩ := x
    unfold getStateHashes
    exact Safe.bind (getStateHash_tracks _) (getStateHash_safe _) fun _ _ =>
      Safe.bind (getStateHashes_tracks _) ih fun _ _ => Safe.pure trivial

theorem getBlockchainState_safe : Safe lf getBlockchainState (fun _ => True) DevErr := by
  unfold getBlockchainState
  refine Safe.bind (getStateHashes_tracks _) (getStateHashes_safe _) fun hs _ => ?_
  refine Safe.bind (sendCommand_tracks _ _)
    ((sendCommand_safe' _ _ state_not_exit).weaken (fun _ h => h) fun _ h => Or.inl h) fun r hr => ?_
  have hc := conf_state hr
  refine Safe.bind (idx_tracks _ _) (idx_safe (by omega)) fun op _ => ?_
  split
  · exact Safe.throw (Or.inr rfl)
  · refine Safe.bind (sendCommand_tracks _ _)
      ((sendCommand_safe' _ _ state_not_exit).weaken (fun _ h => h) fun _ h => Or.inl h) fun f hf => ?_
    have hc2 := conf_state hf
    refine Safe.bind (idx_tracks _ _) (idx_safe (by omega)) fun fop _ => ?_
    split
    · exact Safe.throw (Or.inr rfl)
    · exact Safe.pure trivial

theorem resetAdvanceBlockchain_safe : Safe lf resetAdvanceBlockchain (fun _ => True) DevErr := by
  unfold resetAdvanceBlockchain
  refine Safe.bind (sendCommand_tracks _ _)
    ((sendCommand_safe' _ _ reset_not_exit).weaken (fun _ h => h) fun _ h => Or.inl h) fun r hr => ?_
  have hc := conf_reset hr
  refine Safe.bind (idx_tracks _ _) (idx_safe (by omega)) fun op _ => ?_
  split
  · exact Safe.throw (Or.inr rfl)
  · exact Safe.pure trivial

/-! ### heartbeats -/

theorem conf_hb_get {cmd : Nat} {ops : List (String × Nat)} {b : Bytes} (hcmd : cmd = 96)
    (hget : dictGet ops "GET" 0 = 2)
    (h : respConforms (CLA :: UInt8.ofNat cmd :: [UInt8.ofNat (dictGet ops "GET" 0)]) (.data b) = true) :
    (Der.parse (b.drop 3)).isSome = true := by
  subst hcmd
  rw [hget] at h
  simp only [respConforms, List.getD_cons_succ, List.getD_cons_zero] at h
  simpa using h

theorem heartbeatRun_safe (cmd : Nat) (ops : List (String × Nat)) (ud : Bytes) (hcmd : cmd = 96)
    (hget : dictGet ops "GET" 0 = 2) :
    Safe lf (heartbeatRun cmd ops ud) (fun _ => True) (fun _ => False) := by
  have hx : (UInt8.ofNat cmd).toNat ≠ 0xFF ∧ (UInt8.ofNat cmd).toNat ≠ 0xFA := by subst hcmd; decide
  unfold heartbeatRun
  dsimp only
  refine catchResult_safe ?_ ?_ fun _ => Safe.pure trivial
  · repeat' tracks_step
  · refine Safe.bind (sendCommand_tracks _ _) (sendCommand_safe' _ _ hx) fun _ _ => ?_
    refine Safe.bind (sendCommand_tracks _ _) (sendCommand_safe' _ _ hx) fun sig hsig => ?_
    have hder := conf_hb_get hcmd hget hsig
    refine Safe.bind (sendCommand_tracks _ _) (sendCommand_safe' _ _ hx) fun _ _ => ?_
    refine Safe.bind (sendCommand_tracks _ _) (sendCommand_safe' _ _ hx) fun _ _ => ?_
    refine Safe.bind (sendCommand_tracks _ _) (sendCommand_safe' _ _ hx) fun _ _ => ?_
    split
    · rename_i hnone; rw [hnone] at hder; cases hder
    · exact Safe.pure trivial

theorem signerHeartbeat_safe (ud : Bytes) : Safe lf (signerHeartbeat ud) (fun _ => True) (fun _ => False) :=
  heartbeatRun_safe _ _ _ (by decide) (by decide)

theorem uiHeartbeat_safe (ud : Bytes) : Safe lf (uiHeartbeat ud) (fun _ => True) (fun _ => False) :=
  heartbeatRun_safe _ _ _ (by decide) (by decide)

end Dongle
end PowHsm
