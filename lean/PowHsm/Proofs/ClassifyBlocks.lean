/-
  C02 for `advanceBlockchain` and `updateAncestorBlock`: the validators against `Spec.C02.judge`.
  Refusals are the documents'; the only acceptances the documents forbid are those of the known
  finding F-02b (a `blocks` member that is a non-empty string but not hex).
-/
import PowHsm.Proofs.ClassifySign
namespace PowHsm
namespace Classify
open Ledger Comm Spec Spec.C02 Generated

/-- the zone of one `blocks` member -/
def blockMemberZone (b : Json) : Zone :=
  match b with
  | .str s => if s.isEmpty then Zone.unspec else headerZone b
  | _ => .invalid

theorem blocksZone_arr (kvs : List (String × Json)) (bs : List Json) (n : Nat)
    (h : Json.lookup kvs "blocks" = some (.arr bs)) :
    blocksZone kvs n = if bs.length < n then .invalid else worstAll (bs.map blockMemberZone) := by
  unfold blocksZone
  simp only [h]
  split
  · rfl
  · congr 1

theorem blocksZone_nonarr (kvs : List (String × Json)) (n : Nat)
    (h : ∀ bs, Json.lookup kvs "blocks" ≠ some (.arr bs)) : blocksZone kvs n = .invalid := by
  unfold blocksZone
  cases hl : Json.lookup kvs "blocks" with
  | none => rfl
  | some v => cases v <;> first | rfl | (rename_i bs; exact absurd hl (h bs))

/-- F-02b: a member that is a non-empty string but not (non-empty) hex -/
def NotHexMember (b : Json) : Prop :=
  ∃ s, b = .str s ∧ s.isEmpty = false ∧ ∀ x xs, Py.fromHex s ≠ some (x :: xs)

theorem blockMember_invalid_str (b : Json) (hs : b.isStr = true) (hz : blockMemberZone b = .invalid) :
    NotHexMember b := by
  cases b <;> simp only [Json.isStr] at hs <;> try (cases hs; done)
  rename_i s
  refine ⟨s, rfl, ?_, ?_⟩
  · simp only [blockMemberZone] at hz
    cases he : s.isEmpty with
    | true => simp [he] at hz
    | false => rfl
  · intro x xs hf
    simp only [blockMemberZone, headerZone, hf] at hz
    split at hz
    · cases hz
    · split at hz <;> cases hz

theorem headerZone_valid_nonempty (x : Json) (h : headerZone x = .valid) : nonemptyHexStr x = true := by
  cases x <;> simp only [headerZone] at h <;> try (cases h; done)
  rename_i s
  cases hf : Py.fromHex s with
  | none => rw [hf] at h; cases h
  | some b =>
    cases b with
    | nil => rw [hf] at h; cases h
    | cons y ys => simp [nonemptyHexStr, Py.isNonemptyHex, hf]

theorem headerZone_nonempty_not_invalid (x : Json) (h : nonemptyHexStr x = true) : headerZone x ≠ .invalid := by
  cases x <;> simp only [nonemptyHexStr] at h <;> try (cases h; done)
  rename_i s
  unfold Py.isNonemptyHex at h
  cases hf : Py.fromHex s with
  | none => rw [hf] at h; cases h
  | some b =>
    cases b with
    | nil => rw [hf] at h; cases h
    | cons y ys =>
      simp only [headerZone, hf]
      split <;> simp

theorem arr_or_not (kvs : List (String × Json)) (k : String) :
    (∃ bs, Json.lookup kvs k = some (.arr bs)) ∨ (∀ bs, Json.lookup kvs k ≠ some (.arr bs)) := by
  cases hl : Json.lookup kvs k with
  | none => right; intro m h; cases h
  | some v =>
    cases v
    case arr bs => left; exact ⟨bs, rfl⟩
    all_goals (right; intro m h; cases h)

theorem member_nonstr_invalid (bs : List Json) (h : bs.all Json.isStr = false) :
    worstAll (bs.map blockMemberZone) ≠ .valid := by
  rw [Ne, worstAll_eq_valid]
  intro hall
  have : ∃ b ∈ bs, b.isStr = false := by
    simpa [List.all_eq_false] using h
  obtain ⟨b, hb, hns⟩ := this
  have := hall (blockMemberZone b) (List.mem_map.2 ⟨b, hb, rfl⟩)
  cases b <;> simp [blockMemberZone, Json.isStr] at this hns

/-- the `blocks` checks shared by the two validators -/
def blocksBad (kvs : List (String × Json)) (n : Nat) : Bool :=
  match Json.lookup kvs "blocks" with
  | some (.arr blocks) => decide (blocks.length < n) || !blocks.all Json.isStr
  | _ => true

theorem blocksBad_false (kvs : List (String × Json)) (n : Nat) (h : blocksBad kvs n = false) :
    ∃ bs, Json.lookup kvs "blocks" = some (.arr bs) ∧ ¬ bs.length < n ∧ bs.all Json.isStr = true := by
  unfold blocksBad at h
  cases hl : Json.lookup kvs "blocks" with
  | none => rw [hl] at h; cases h
  | some v =>
    rw [hl] at h
    cases v <;> simp only at h <;> try (cases h; done)
    rename_i bs
    simp only [Bool.or_eq_false_iff, decide_eq_false_iff_not, Bool.not_eq_false'] at h
    exact ⟨bs, rfl, h.1, h.2⟩

/-- a refusal means the documents do not call the value valid -/
theorem blocks_checked (kvs : List (String × Json)) (n : Nat) (h : blocksBad kvs n = true) :
    blocksZone kvs n ≠ .valid := by
  unfold blocksBad at h
  rcases arr_or_not kvs "blocks" with ⟨bs, hb⟩ | hnb
  · rw [blocksZone_arr kvs bs n hb]
    simp only [hb, Bool.or_eq_true, decide_eq_true_eq, Bool.not_eq_true'] at h
    split
    · simp
    · rename_i hlen
      rcases h with h | h
      · exact absurd h hlen
      · exact member_nonstr_invalid bs h
  · rw [blocksZone_nonarr kvs n hnb]; simp

theorem blocks_accepted (kvs : List (String × Json)) (n : Nat) (bs : List Json)
    (hb : Json.lookup kvs "blocks" = some (.arr bs)) (hlen : ¬ bs.length < n) (hstr : bs.all Json.isStr = true)
    (hz : blocksZone kvs n = .invalid) : ∃ b ∈ bs, NotHexMember b := by
  rw [blocksZone_arr kvs bs n hb, if_neg hlen] at hz
  have : ¬ ∀ z ∈ bs.map blockMemberZone, z ≠ .invalid := fun hall => (worstAll_ne_invalid _).2 hall hz
  have : ∃ b ∈ bs, blockMemberZone b = .invalid := by
    apply Classical.byContradiction
    intro hcon
    apply this
    intro z hz'
    obtain ⟨b, hbm, rfl⟩ := List.mem_map.1 hz'
    intro hi
    exact hcon ⟨b, hbm, hi⟩
  obtain ⟨b, hbm, hi⟩ := this
  exact ⟨b, hbm, blockMember_invalid_str b (List.all_eq_true.1 hstr b hbm) hi⟩

/-- what `_validate_update_ancestor_block` checks -/
theorem validateUpdate_eq (c : Codes) (kvs : List (String × Json)) :
    validateUpdate c kvs = if blocksBad kvs 1 then c.invalidBlocks else 0 := by
  unfold validateUpdate blocksBad
  cases Json.lookup kvs "blocks" with
  | none => rfl
  | some v =>
    cases v <;> try rfl
    rename_i blocks
    have hmin : MINIMUM_UPDATE_ANCESTOR_BLOCKS = 1 := rfl
    simp only [hmin]
    by_cases h1 : blocks.length < 1
    · simp [h1]
    · by_cases h2 : (!blocks.all Json.isStr) = true
      · simp [h1, h2]
      · simp [h1, h2]

/-- **`updateAncestorBlock`**: a refusal carries -204 for a `blocks` value the documents do not call
    valid; an acceptance the documents forbid has a member that is a non-empty string but not hex
    (known finding F-02b) — nothing else -/
theorem update_classified (kvs : List (String × Json)) :
    (validateUpdate (codes .v5) kvs ≠ 0 →
      validateUpdate (codes .v5) kvs = -204 ∧ ∃ z, ((-204 : Int), z) ∈ fieldZones .v5 "updateAncestorBlock" kvs ∧ z ≠ .valid) ∧
    (validateUpdate (codes .v5) kvs = 0 →
      (fieldZones .v5 "updateAncestorBlock" kvs).any (·.2 == .invalid) = true →
      ∃ bs, Json.lookup kvs "blocks" = some (.arr bs) ∧ ∃ b ∈ bs, NotHexMember b) := by
  have hcode : (codes .v5).invalidBlocks = -204 := by decide
  have hfz : fieldZones .v5 "updateAncestorBlock" kvs = [(-204, blocksZone kvs 1)] := by simp [fieldZones]
  rw [hfz, validateUpdate_eq]
  cases hbad : blocksBad kvs 1 with
  | true =>
    simp only [if_true, hcode]
    exact ⟨fun _ => ⟨trivial, _, by simp, blocks_checked kvs 1 hbad⟩, fun h => by cases h⟩
  | false =>
    simp only [Bool.false_eq_true, if_false]
    refine ⟨fun h => absurd rfl h, fun _ hany => ?_⟩
    obtain ⟨bs, hb, hlen, hstr⟩ := blocksBad_false kvs 1 hbad
    have hz : blocksZone kvs 1 = .invalid := by simpa using hany
    exact ⟨bs, hb, blocks_accepted kvs 1 bs hb hlen hstr hz⟩

/-! ### advanceBlockchain: brothers -/

def broListOk (l : Json) : Bool :=
  match l with
  | .arr xs => xs.all nonemptyHexStr
  | _ => true

def broZone (l : Json) : Zone :=
  match l with
  | .arr xs => worst (worstAll (xs.map headerZone)) (if xs.length ≤ 10 then .valid else .unspec)
  | _ => .invalid

theorem brothersZone_arr (kvs : List (String × Json)) (bs : List Json)
    (hb : Json.lookup kvs "blocks" = some (.arr bs)) :
    brothersZone kvs = match Json.lookup kvs "brothers" with
      | some (.arr brs) => if brs.length != bs.length then .invalid else worstAll (brs.map broZone)
      | _ => .invalid := by
  unfold brothersZone
  simp only [hb]
  cases Json.lookup kvs "brothers" with
  | none => rfl
  | some v =>
    cases v <;> rfl

/-- what `_validate_advance_blockchain` checks on `brothers` once `blocks` is an array -/
def brothersBad (kvs : List (String × Json)) (n : Nat) : Bool :=
  match Json.lookup kvs "brothers" with
  | some (.arr bros) => bros.length != n || !bros.all Json.isArr || !bros.all broListOk
  | _ => true

theorem validateAdvance_eq (c : Codes) (kvs : List (String × Json)) :
    validateAdvance c kvs =
      if blocksBad kvs 1 then c.invalidBlocks
      else if brothersBad kvs (match Json.lookup kvs "blocks" with | some (.arr bs) => bs.length | _ => 0)
        then c.invalidBrothers else 0 := by
  unfold validateAdvance blocksBad brothersBad
  cases Json.lookup kvs "blocks" with
  | none => rfl
  | some v =>
    cases v with
    | arr blocks =>
      simp only
      by_cases h1 : blocks.isEmpty = true
      · have : blocks.length < 1 := by
          have := List.isEmpty_iff.1 h1; subst this; simp
        rw [if_pos h1, if_pos (by simp [this])]
      · have hlen : ¬ blocks.length < 1 := by
          intro hl
          apply h1
          have : blocks.length = 0 := by omega
          simp [List.length_eq_zero_iff.1 this]
        rw [if_neg h1]
        by_cases h2 : (!blocks.all Json.isStr) = true
        · rw [if_pos h2, if_pos (by simp [h2])]
        · rw [if_neg h2, if_neg (by simp [hlen, h2])]
          cases Json.lookup kvs "brothers" with
          | none => rfl
          | some w =>
            cases w with
            | arr bros =>
              simp only
              by_cases h3 : (bros.length != blocks.length) = true
              · rw [if_pos h3, if_pos (by simp [h3])]
              · rw [if_neg h3]
                by_cases h4 : (!bros.all Json.isArr) = true
                · rw [if_pos h4, if_pos (by simp [h4])]
                · rw [if_neg h4]
                  have key : ∀ (f : Json → Bool), (∀ bl, f bl = broListOk bl) →
                      (if (!bros.all f) = true then c.invalidBrothers else 0) =
                      if (bros.length != blocks.length || !bros.all Json.isArr || !bros.all broListOk) = true
                        then c.invalidBrothers else 0 := by
                    intro f hf
                    have : bros.all f = bros.all broListOk := by
                      congr 1; funext bl; exact hf bl
                    rw [this]
                    by_cases h5 : (!bros.all broListOk) = true
                    · rw [if_pos h5, if_pos (by simp [h5])]
                    · rw [if_neg h5, if_neg (by simp [h3, h4, h5])]
                  exact key _ (fun bl => by cases bl <;> rfl)
            | _ => rfl
    | _ => rfl

theorem broZone_valid_ok (l : Json) (h : broZone l = .valid) : l.isArr = true ∧ broListOk l = true := by
  cases l <;> simp only [broZone] at h <;> try (cases h; done)
  rename_i xs
  rw [worst_eq_valid, worstAll_eq_valid] at h
  refine ⟨rfl, ?_⟩
  simp only [broListOk, List.all_eq_true]
  intro x hx
  exact headerZone_valid_nonempty x (h.1 _ (List.mem_map.2 ⟨x, hx, rfl⟩))

theorem broZone_ok_not_invalid (l : Json) (ha : l.isArr = true) (h : broListOk l = true) : broZone l ≠ .invalid := by
  cases l <;> simp only [Json.isArr] at ha <;> try (cases ha; done)
  rename_i xs
  simp only [broListOk, List.all_eq_true] at h
  simp only [broZone]
  rw [worst_ne_invalid, worstAll_ne_invalid]
  refine ⟨fun z hz => ?_, by split <;> simp⟩
  obtain ⟨x, hx, rfl⟩ := List.mem_map.1 hz
  exact headerZone_nonempty_not_invalid x (h x hx)

theorem brothers_checked (kvs : List (String × Json)) (bs : List Json)
    (hb : Json.lookup kvs "blocks" = some (.arr bs)) (h : brothersBad kvs bs.length = true) :
    brothersZone kvs ≠ .valid := by
  rw [brothersZone_arr kvs bs hb]
  unfold brothersBad at h
  cases hl : Json.lookup kvs "brothers" with
  | none => simp
  | some v =>
    rw [hl] at h
    cases v with
    | arr brs =>
      simp only at h ⊢
      split
      · simp
      · rename_i hlen
        intro hv
        rw [worstAll_eq_valid] at hv
        have hall' : ∀ l ∈ brs, l.isArr = true ∧ broListOk l = true := fun l hl' =>
          broZone_valid_ok l (hv _ (List.mem_map.2 ⟨l, hl', rfl⟩))
        have h1 : brs.all Json.isArr = true := List.all_eq_true.2 fun l hl' => (hall' l hl').1
        have h2 : brs.all broListOk = true := List.all_eq_true.2 fun l hl' => (hall' l hl').2
        simp [h1, h2] at h
        exact hlen (by simpa using h)
    | _ => simp

theorem brothers_accepted (kvs : List (String × Json)) (bs : List Json)
    (hb : Json.lookup kvs "blocks" = some (.arr bs)) (h : brothersBad kvs bs.length = false) :
    brothersZone kvs ≠ .invalid := by
  rw [brothersZone_arr kvs bs hb]
  unfold brothersBad at h
  cases hl : Json.lookup kvs "brothers" with
  | none => rw [hl] at h; cases h
  | some v =>
    rw [hl] at h
    cases v <;> simp only at h ⊢ <;> try (cases h; done)
    rename_i brs
    simp only [Bool.or_eq_false_iff, Bool.not_eq_false', bne_eq_false_iff_eq] at h
    obtain ⟨⟨hlen, harr⟩, hok⟩ := h
    rw [if_neg (by simp [hlen])]
    rw [worstAll_ne_invalid]
    intro z hz
    obtain ⟨l, hl', rfl⟩ := List.mem_map.1 hz
    exact broZone_ok_not_invalid l (List.all_eq_true.1 harr l hl') (List.all_eq_true.1 hok l hl')

/-- **`advanceBlockchain`**: a refusal carries -204 / -205 for a `blocks` / `brothers` value the
    documents do not call valid; an acceptance the documents forbid has a `blocks` member that is a
    non-empty string but not hex (known finding F-02b) — nothing else -/
theorem advance_classified (kvs : List (String × Json)) :
    (validateAdvance (codes .v5) kvs ≠ 0 →
      ∃ z, (validateAdvance (codes .v5) kvs, z) ∈ fieldZones .v5 "advanceBlockchain" kvs ∧ z ≠ .valid ∧
        validateAdvance (codes .v5) kvs < 0) ∧
    (validateAdvance (codes .v5) kvs = 0 →
      (fieldZones .v5 "advanceBlockchain" kvs).any (·.2 == .invalid) = true →
      ∃ bs, Json.lookup kvs "blocks" = some (.arr bs) ∧ ∃ b ∈ bs, NotHexMember b) := by
  have hc1 : (codes .v5).invalidBlocks = -204 := by decide
  have hc2 : (codes .v5).invalidBrothers = -205 := by decide
  have hfz : fieldZones .v5 "advanceBlockchain" kvs = [(-204, blocksZone kvs 1), (-205, brothersZone kvs)] := by
    simp [fieldZones]
  rw [hfz, validateAdvance_eq]
  cases hbad : blocksBad kvs 1 with
  | true =>
    simp only [if_true, hc1]
    exact ⟨fun _ => ⟨_, by simp, blocks_checked kvs 1 hbad, by decide⟩, fun h => by cases h⟩
  | false =>
    obtain ⟨bs, hb, hlen, hstr⟩ := blocksBad_false kvs 1 hbad
    simp only [Bool.false_eq_true, if_false, hb]
    cases hbro : brothersBad kvs bs.length with
    | true =>
      simp only [if_true, hc2]
      exact ⟨fun _ => ⟨_, by simp, brothers_checked kvs bs hb hbro, by decide⟩, fun h => by cases h⟩
    | false =>
      simp only [Bool.false_eq_true, if_false]
      refine ⟨fun h => absurd rfl h, fun _ hany => ?_⟩
      have hbz := brothers_accepted kvs bs hb hbro
      have hz : blocksZone kvs 1 = .invalid := by
        simp only [List.any_cons, List.any_nil, Bool.or_false, Bool.or_eq_true, beq_iff_eq] at hany
        rcases hany with h | h
        · exact h
        · exact absurd h hbz
      exact ⟨bs, rfl, blocks_accepted kvs 1 bs hb hlen hstr hz⟩

end Classify
end PowHsm
