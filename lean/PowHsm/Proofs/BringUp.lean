/-
  Trace facts about the bring-up model (`Ledger.initializeDevice`): which commands can carry a
  PIN or unlock the device, and where they can occur.
-/
import PowHsm.Proofs.Emits
import PowHsm.Ledger.Protocol
import PowHsm.Spec.C09
namespace PowHsm
namespace Ledger
open Dongle Generated Tbl M

/-- messages that carry PIN material or unlock / re-key the device: SEND_PIN, UNLOCK,
    CHANGE_PIN (Ledger UI) and SGX_UNLOCK, SGX_CHANGE_PASSWORD -/
def pinBearing (a : Bytes) : Bool :=
  Spec.C09.isPinMsg a || Spec.C09.cmdOf a == 0x08 || Spec.C09.cmdOf a == 0xA5

def notPin : Ev → Bool
  | .apdu a => !pinBearing a
  | _ => true

/-- the unlock commands proper -/
def isUnlock : Ev → Bool
  | .apdu a => Spec.C09.cmdOf a == 0xFE || Spec.C09.cmdOf a == 0xA3
  | _ => false

def notUnlock (e : Ev) : Bool := !isUnlock e

theorem getWorld_emits {P : Ev → Bool} : Emits P getWorld := fun _ => rfl
theorem modifyWorld_emits {P : Ev → Bool} (f : World → World) : Emits P (modifyWorld f) := fun _ => rfl

theorem connect_notPin : Emits notPin connect := by
  refine Dongle.connect_emits ?_
  intro ok
  rfl

syntax "emits_step" : tactic
macro_rules
  | `(tactic| emits_step) => `(tactic| first
    | with_reducible exact M.Emits.pure _
    | with_reducible exact M.Emits.throw _
    | with_reducible exact Dongle.idx_emits _ _
    | with_reducible exact getWorld_emits
    | with_reducible exact modifyWorld_emits _
    | (with_reducible refine Dongle.sendCommand_emits _ _ ?_; first | decide | rfl)
    | with_reducible exact connect_notPin
    | (with_reducible refine Dongle.disconnect_emits ?_; rfl)
    | (with_reducible refine M.Emits.emit ?_; rfl)
    | with_reducible refine M.Emits.bind ?_ ?_
    | with_reducible refine M.Emits.tryCatchIf ?_ ?_
    | with_reducible refine M.Emits.attempt ?_
    | with_reducible intro _
    | split
    | (dsimp only; split))

theorem getVersion_notPin : Emits notPin getVersion := by
  unfold getVersion; repeat' emits_step

theorem getCurrentMode_notPin : Emits notPin getCurrentMode := by
  unfold getCurrentMode; repeat' emits_step

theorem isOnboarded_notPin : Emits notPin isOnboarded := by
  unfold isOnboarded; repeat' emits_step

theorem platEcho_notPin : Emits notPin platEcho := by
  unfold platEcho echo; repeat' emits_step

theorem platRetries_notPin : Emits notPin platRetries := by
  unfold platRetries getRetries; repeat' emits_step

theorem checkVersion_emits {P : Ev → Bool} (a b : Nat × Nat × Nat) : Emits P (checkVersion a b) := by
  unfold checkVersion; repeat' emits_step

theorem getSignerParameters_notPin : Emits notPin getSignerParameters := by
  unfold getSignerParameters; repeat' emits_step

/-- **nothing that carries a PIN is sent before the start-up checks are over** -/
theorem initGuards_notPin : Emits notPin initGuards := by
  unfold initGuards
  refine Emits.bind ?_ fun _ => Emits.bind ?_ fun _ => Emits.bind getCurrentMode_notPin fun _ => Emits.pure _
  · repeat' emits_step
  · refine Emits.tryCatchIf (Emits.bind isOnboarded_notPin ?_) ?_ <;> repeat' emits_step

theorem blGuards_notPin : Emits notPin blGuards := by
  unfold blGuards
  refine Emits.bind getVersion_notPin fun v => Emits.bind (checkVersion_emits _ _) fun _ =>
    Emits.bind platEcho_notPin fun e => ?_
  split
  · exact Emits.throw _
  · refine Emits.bind (Emits.tryCatchIf (Emits.bind platRetries_notPin ?_) ?_) fun _ => Emits.pure _
      <;> repeat' emits_step

theorem signerChecks_notPin (mode : Nat) : Emits notPin (signerChecks mode) := by
  unfold signerChecks
  split
  · exact Emits.throw _
  · exact Emits.bind getVersion_notPin fun _ => Emits.bind (checkVersion_emits _ _) fun _ =>
      Emits.bind getSignerParameters_notPin fun _ => Emits.pure _

/-! ### what the checks establish -/

theorem returns_checkVersion_bind {P : β → Prop} (fw mw : Nat × Nat × Nat) (f : Unit → M β)
    (h : supports mw fw = true → Returns P (f ())) : Returns P (checkVersion fw mw >>= f) := by
  unfold checkVersion
  split
  · rename_i hs
    intro w b hb
    rw [bind_apply] at hb
    exact h hs w b hb
  · intro w b hb
    rw [bind_apply] at hb
    simp [M.throw'] at hb

/-- whenever the bootloader checks hand over, the device had reported a supported UI version,
    echoed correctly, and at least the minimum number of PIN retries -/
theorem blGuards_returns :
    Returns (fun x => supports UI_VERSION x.1 = true ∧ x.2.1 = true ∧ MIN_AVAILABLE_RETRIES ≤ x.2.2) blGuards := by
  unfold blGuards
  refine returns_bind _ _ fun v => returns_checkVersion_bind _ _ _ fun hs => returns_bind _ _ fun e => ?_
  split
  · exact returns_throw _
  · rename_i he
    refine returns_bind_of _ _ fun r hr => returns_pure ⟨hs, by simpa using he, ?_⟩
    obtain ⟨w, hw⟩ := hr
    have : Returns (fun r => MIN_AVAILABLE_RETRIES ≤ r)
        (M.tryCatchIf (do let r ← platRetries
                          if r < MIN_AVAILABLE_RETRIES then M.throw' .protoInterrupt else pure r)
          Exc.isDongleBase (fun _ => M.throw' .protoInterrupt)) := by
      refine returns_tryCatchIf _ _ _ (returns_bind _ _ fun r => ?_) fun _ => returns_throw _
      split
      · exact returns_throw _
      · rename_i hlt
        exact returns_pure (Nat.le_of_not_lt hlt)
    exact this w r hw

/-- whenever the start-up checks hand over, the device had reported that it is onboarded -/
theorem initGuards_returns : Returns (fun x => x.1 = true) initGuards := by
  unfold initGuards
  refine returns_bind _ _ fun _ => returns_bind_of _ _ fun o ho => returns_bind _ _ fun m => returns_pure ?_
  obtain ⟨w, hw⟩ := ho
  have : Returns (fun o => o = true)
      (M.tryCatchIf (do let o ← isOnboarded
                        if !o then M.throw' .protoError else pure o)
        Exc.isDongleBase (fun _ => M.throw' .protoInterrupt)) := by
    refine returns_tryCatchIf _ _ _ (returns_bind _ _ fun o => ?_) fun _ => returns_throw _
    split
    · exact returns_throw _
    · rename_i h; exact returns_pure (by simpa using h)
  exact this w o hw

/-- serving starts only from signer mode with a supported signer version -/
theorem signerChecks_returns (mode : Nat) :
    Returns (fun x => x.1 = mode ∧ x.1 = Mode_SIGNER.toNat ∧ supports APP_VERSION x.2 = true) (signerChecks mode) := by
  unfold signerChecks
  split
  · exact returns_throw _
  · rename_i hm
    refine returns_bind _ _ fun v => returns_checkVersion_bind _ _ _ fun hs => returns_bind _ _ fun _ =>
      returns_pure ⟨rfl, by simpa using hm, hs⟩

/-! ### the unlock command is sent at most once -/

theorem notPin_notUnlock (e : Ev) (h : notPin e = true) : notUnlock e = true := by
  cases e with
  | apdu a =>
    simp only [notPin, pinBearing, Spec.C09.isPinMsg, Bool.not_eq_true', Bool.or_eq_false_iff] at h
    simp only [notUnlock, isUnlock, Bool.not_eq_true', Bool.or_eq_false_iff]
    exact ⟨h.1.1.1.2, h.1.1.2⟩
  | _ => rfl

theorem sendPin_go_notUnlock (bs : Bytes) : ∀ i, Emits notUnlock (sendPin.go i bs) := by
  induction bs with
  | nil => intro i; unfold sendPin.go; exact Emits.pure _
  | cons b bs ih =>
    intro i
    unfold sendPin.go
    exact Emits.bind (sendCommand_emits _ _ rfl) fun _ => ih (i + 1)

theorem sendPin_notUnlock (pin : Bytes) (b : Bool) : Emits notUnlock (sendPin pin b) := by
  unfold sendPin
  exact sendPin_go_notUnlock _ 0

theorem pinObj_emits {P : Ev → Bool} : Emits P pinObj := by
  unfold pinObj; repeat' emits_step

theorem setPin_emits {P : Ev → Bool} (p : PinSt) : Emits P (setPin p) := modifyWorld_emits _

theorem platNewPin_notUnlock (pin : Bytes) : Emits notUnlock (platNewPin pin) := by
  unfold platNewPin
  refine Emits.bind getWorld_emits fun w => ?_
  split
  · refine Emits.bind (sendCommand_emits _ _ rfl) fun r => ?_
    repeat' emits_step
  · unfold newPin catchResult
    refine Emits.tryCatchIf (Emits.bind (sendPin_notUnlock _ _) fun _ => ?_) fun e => ?_
    · repeat' emits_step
    · repeat' emits_step

theorem pinStartChange_emits {P : Ev → Bool} : Emits P pinStartChange := by
  unfold pinStartChange
  refine Emits.bind pinObj_emits fun p => ?_
  split
  · exact Emits.pure _
  · exact Emits.bind getWorld_emits fun _ => Emits.bind (modifyWorld_emits _) fun _ => setPin_emits _

theorem pinGetNew_emits {P : Ev → Bool} : Emits P pinGetNew := by
  unfold pinGetNew
  exact Emits.bind pinObj_emits fun _ => Emits.pure _

theorem pinAbort_emits {P : Ev → Bool} : Emits P pinAbort := by
  unfold pinAbort
  refine Emits.bind pinObj_emits fun p => ?_
  split
  · exact Emits.pure _
  · exact setPin_emits _

theorem pinCommit_notUnlock : Emits notUnlock pinCommit := by
  unfold pinCommit
  refine Emits.bind pinObj_emits fun p => ?_
  split
  · exact Emits.pure _
  · refine Emits.bind getWorld_emits fun _ => Emits.bind (modifyWorld_emits _) fun _ =>
      Emits.bind (Emits.emit rfl) fun _ => ?_
    split
    · exact Emits.throw _
    · exact setPin_emits _

theorem waitAndReconnect_notUnlock : Emits notUnlock waitAndReconnect := by
  unfold waitAndReconnect
  exact Emits.bind (Emits.emit rfl) fun _ => Emits.bind (disconnect_emits rfl) fun _ =>
    connect_emits fun ok => by cases ok <;> rfl

theorem blAfterUnlock_notUnlock : Emits notUnlock blAfterUnlock := by
  unfold blAfterUnlock
  refine Emits.bind pinObj_emits fun p => ?_
  split
  · refine Emits.bind (Emits.attempt (Emits.bind pinStartChange_emits fun _ => Emits.bind pinGetNew_emits fun np => ?_))
      fun r => ?_
    · split
      · exact Emits.throw _
      · refine Emits.bind (platNewPin_notUnlock _) fun ok => ?_
        split
        · exact Emits.throw _
        · exact pinCommit_notUnlock
    · dsimp only
      split
      · exact Emits.throw _
      · exact Emits.bind pinAbort_emits fun _ => Emits.throw _
  · refine Emits.bind (Emits.attempt ?_) fun _ => waitAndReconnect_notUnlock
    unfold exitMenu
    repeat' emits_step

theorem sendCommand_count (Q : Ev → Bool) (c : UInt8) (d : Bytes) : CountLe Q 1 (sendCommand c d) := by
  intro w
  unfold sendCommand exchange
  split <;> simp [List.countP_cons] <;> split <;> omega

theorem platUnlock_count (pin : Bytes) : CountLe isUnlock 1 (platUnlock pin) := by
  unfold platUnlock
  have h0 : CountLe isUnlock 0 (getWorld) := CountLe.of_emits getWorld_emits
  have tail : ∀ r : Bytes, CountLe isUnlock 0 (idx r 2 >>= fun b => (pure (b != 0) : M Bool)) := fun r =>
    CountLe.of_emits (Emits.bind (idx_emits _ _) fun _ => Emits.pure _)
  refine CountLe.mono (CountLe.bind h0 fun w => ?_) (by omega : 0 + 1 ≤ 1)
  split
  · exact CountLe.mono (CountLe.bind (sendCommand_count _ _ _) tail) (by omega)
  · unfold unlock
    have h1 : CountLe isUnlock 0 (sendPin pin false) := CountLe.of_emits (by
      have := sendPin_notUnlock pin false
      exact this.mono fun e he => by simpa [notUnlock] using he)
    refine CountLe.mono (CountLe.bind h1 fun _ => ?_) (by omega : 0 + 1 ≤ 1)
    exact CountLe.mono (CountLe.bind (sendCommand_count _ _ _) tail) (by omega)

theorem handleBootloader_count : CountLe isUnlock 1 handleBootloader := by
  unfold handleBootloader
  have g : CountLe isUnlock 0 blGuards := CountLe.of_emits
    ((blGuards_notPin.mono notPin_notUnlock).mono fun e he => by simpa [notUnlock] using he)
  have p : CountLe isUnlock 0 pinObj := CountLe.of_emits pinObj_emits
  refine CountLe.mono (CountLe.bind g fun _ => CountLe.bind p fun pn =>
    CountLe.bind (platUnlock_count pn.pin) fun ok => ?_) (by omega : 0 + (0 + (1 + 0)) ≤ 1)
  split
  · exact CountLe.of_emits (Emits.throw _)
  · exact CountLe.of_emits (blAfterUnlock_notUnlock.mono fun e he => by simpa [notUnlock] using he)

end Ledger
end PowHsm
