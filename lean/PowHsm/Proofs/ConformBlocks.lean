/-
  `Safe` for the block operations (`advance_blockchain`, `update_ancestor`).
-/
import PowHsm.Proofs.ConformState
namespace PowHsm
open M Dongle Ledger Generated Tbl Spec

theorem conf_block {cmd : UInt8} {d b : Bytes} (hc : cmd.toNat = 0x10 ∨ cmd.toNat = 0x30)
    (h : respConforms (CLA :: cmd :: d) (.data b) = true) :
    3 ≤ b.length ∧ ((b.getD 2 0).toNat = 4 ∨ (b.getD 2 0).toNat = 9 → 4 ≤ b.length) := by
  simp only [respConforms, List.getD_cons_succ, List.getD_cons_zero] at h
  rcases hc with h1 | h1 <;> simp [h1] at h <;> grind

theorem length_of_mapM_some {α β : Type} {f : α → Option β} :
    ∀ (l : List α) (l' : List β), l.mapM f = some l' → l'.length = l.length := by
  intro l
  induction l with
  | nil => intro l' h; simp at h; subst h; rfl
  | cons a as ih =>
    intro l' h
    rw [List.mapM_cons] at h
    cases hfa : f a with
    | none => simp [hfa] at h
    | some b =>
      cases hrest : as.mapM f with
      | none => simp [hfa, hrest] at h
      | some bs =>
        simp [hfa, hrest] at h
        subst h
        simp [ih bs hrest]

namespace Dongle
variable {lf : Bool}

/-- the configurations in which a header can be sent: an advance / update command whose chunk
    operation is one of those the conformance predicate knows -/
def ChunkOk (c : BlockCfg) (isB : Bool) : Prop :=
  (c.cmd.toNat = 0x10 ∨ c.cmd.toNat = 0x30) ∧
    ((headerOpChunk c isB).toNat = 4 ∨ (headerOpChunk c isB).toNat = 9)

theorem advCfg_chunkOk (isB : Bool) : ChunkOk advCfg isB := by
  cases isB <;> (unfold ChunkOk; decide)
theorem updCfg_chunkOk : ChunkOk updCfg false := by unfold ChunkOk; decide

theorem ChunkOk.not_exit {c : BlockCfg} {isB : Bool} (h : ChunkOk c isB) :
    c.cmd.toNat ≠ 0xFF ∧ c.cmd.toNat ≠ 0xFA := by
  rcases h.1 with h1 | h1 <;> omega

def HdrGood : HdrOut → Prop
  | .ok resp => 3 ≤ resp.length
  | .fail _ => True

theorem headerMetaStep_safe (c : BlockCfg) (isB : Bool) (data : Bytes) (hk : ChunkOk c isB) :
    Safe lf (headerMetaStep c isB data) (fun _ => True) (fun _ => False) := by
  unfold headerMetaStep
  refine catchResult_safe ?_ ?_ fun _ => Safe.pure trivial
  · repeat' tracks_step
  · refine Safe.bind (sendCommand_tracks _ _) (sendCommand_safe' _ _ hk.not_exit) fun resp hresp => ?_
    have hc := conf_block hk.1 hresp
    refine Safe.bind (idx_tracks _ _) (idx_safe (by omega)) fun rop hrop => ?_
    split
    · exact Safe.pure trivial
    · rename_i hne
      have hr : rop = headerOpChunk c isB := by simpa using hne
      have h4 : 4 ≤ resp.length := by
        apply hc.2
        rw [getD_of_getElem? hrop, hr]; exact hk.2
      exact Safe.bind (idx_tracks _ _) (idx_safe (by omega)) fun _ _ => Safe.pure trivial

theorem chunkAnswers_block {c : BlockCfg} {isB : Bool} (hk : ChunkOk c isB) :
    ChunkAnswers c.cmd (headerOpChunk c isB) := by
  intro d r h
  have hc := conf_block hk.1 h
  refine ⟨hc.1, ?_⟩
  intro h2
  apply hc.2
  rw [getD_of_getElem? h2]
  exact hk.2

theorem headerChunkStep_safe (c : BlockCfg) (isB : Bool) (raw : Bytes) (req : Nat) (hk : ChunkOk c isB) :
    Safe lf (headerChunkStep c isB raw req) HdrGood (fun _ => False) := by
  unfold headerChunkStep
  refine catchResult_safe ?_ ?_ fun _ => Safe.pure trivial
  · repeat' tracks_step
  · refine Safe.bind (sendChunks_tracks _ _ _ _ _ _)
      (sendChunks_safe _ _ _ _ _ _ hk.not_exit (chunkAnswers_block hk)) fun p hq => ?_
    obtain ⟨okb, resp⟩ := p
    dsimp only
    split
    · exact Safe.pure trivial
    · obtain ⟨d, hd⟩ := hq
      exact Safe.pure (conf_block hk.1 hd).1

theorem sendBlockHeader_safe (h : Hashes) (c : BlockCfg) (isB : Bool) (b : Option Bytes) (hk : ChunkOk c isB) :
    Safe lf (sendBlockHeader h c isB b) HdrGood (fun _ => False) := by
  unfold sendBlockHeader
  split
  · exact Safe.pure trivial
  · exact Safe.pure trivial
  · refine Safe.bind (headerMetaStep_tracks _ _ _) (headerMetaStep_safe _ _ _ hk) fun r _ => ?_
    split
    · exact Safe.pure trivial
    · exact headerChunkStep_safe _ _ _ _ hk

theorem sendBrothers_safe (h : Hashes) (c : BlockCfg) (hk : ChunkOk c true) :
    ∀ bs last, 3 ≤ last.length → Safe lf (sendBrothers h c bs last) HdrGood (fun _ => False) := by
  intro bs
  induction bs with
  | nil => intro last hl; unfold sendBrothers; exact Safe.pure hl
  | cons b bs ih =>
    intro last _
    unfold sendBrothers
    refine Safe.bind (sendBlockHeader_tracks _ _ _ _) (sendBlockHeader_safe h c true b hk) fun r hr => ?_
    split
    · exact Safe.pure trivial
    · exact ih _ hr

theorem brothersPart_safe (h : Hashes) (c : BlockCfg) (bros : List (List (Option Bytes))) (resp0 : Bytes)
    (hcmd : c.cmd.toNat = 0x10 ∨ c.cmd.toNat = 0x30) (hadv : c.advance = true → ChunkOk c true)
    (h0 : 3 ≤ resp0.length) :
    Safe lf (brothersPart h c bros resp0) HdrGood (fun _ => False) := by
  have hx : c.cmd.toNat ≠ 0xFF ∧ c.cmd.toNat ≠ 0xFA := by rcases hcmd with h1 | h1 <;> omega
  unfold brothersPart
  refine Safe.bind (idx_tracks _ _) (idx_safe (by omega)) fun rop0 _ => ?_
  split
  · rename_i hcond
    have hadv' : c.advance = true := by
      simp only [Bool.and_eq_true] at hcond; exact hcond.1
    dsimp only
    split
    · exact Safe.pure trivial
    · refine Safe.bind ?_ (Q := HdrGood) ?_ fun r hr => ?_
      · repeat' tracks_step
      · refine catchResult_safe ?_ ?_ fun _ => Safe.pure trivial
        · repeat' tracks_step
        · refine Safe.bind (sendCommand_tracks _ _) (sendCommand_safe' _ _ hx) fun resp hresp => ?_
          have hc := conf_block hcmd hresp
          split
          · refine Safe.bind (idx_tracks _ _) (idx_safe (by omega)) fun rop _ => ?_
            split
            · exact Safe.pure trivial
            · exact Safe.pure hc.1
          · exact Safe.pure hc.1
      · split
        · exact Safe.pure trivial
        · exact sendBrothers_safe h c (hadv hadv') _ _ hr
  · exact Safe.pure h0

/-- the only thing the block loop itself can raise is the layer's own "unexpected state" error -/
theorem blockLoop_safe (h : Hashes) (c : BlockCfg) (hk : ChunkOk c false) (hadv : c.advance = true → ChunkOk c true) :
    ∀ blocks bros, Safe lf (blockLoop h c blocks bros) (fun _ => True) (fun e => e = .dongleError) := by
  intro blocks
  induction blocks with
  | nil => intro bros; unfold blockLoop; exact Safe.throw rfl
  | cons b bs ih =>
    intro bros
    unfold blockLoop
    refine Safe.bind (sendBlockHeader_tracks _ _ _ _)
      ((sendBlockHeader_safe h c false b hk).weaken (fun _ h => h) fun _ h => h.elim) fun r hr => ?_
    split
    · exact Safe.pure trivial
    · refine Safe.bind (brothersPart_tracks _ _ _ _)
        ((brothersPart_safe h c bros _ hk.1 hadv hr).weaken (fun _ h => h) fun _ h => h.elim) fun r2 hr2 => ?_
      split
      · exact Safe.pure trivial
      · refine Safe.bind (idx_tracks _ _) (idx_safe (by exact hr2)) fun rop _ => ?_
        split
        · exact Safe.pure trivial
        · split
          · exact Safe.pure trivial
          · exact ih _

theorem doBlockOperation_safe (h : Hashes) (c : BlockCfg) (blocks : List (Option Bytes))
    (bros : List (List (Option Bytes))) (hk : ChunkOk c false) (hadv : c.advance = true → ChunkOk c true)
    (hlen : blocks.length < 2 ^ 32) :
    Safe lf (doBlockOperation h c blocks bros) (fun _ => True) (fun e => e = .dongleError) := by
  unfold doBlockOperation
  split
  · rename_i hge; omega
  · refine Safe.bind ?_ (Q := fun _ => True) ?_ fun r _ => ?_
    · repeat' tracks_step
    · refine catchResult_safe ?_ ?_ fun _ => Safe.pure trivial
      · repeat' tracks_step
      · refine Safe.bind (sendCommand_tracks _ _) (sendCommand_safe' _ _ hk.not_exit) fun resp hresp => ?_
        have hc := conf_block hk.1 hresp
        refine Safe.bind (idx_tracks _ _) (idx_safe (by omega)) fun rop _ => ?_
        split <;> exact Safe.pure trivial
    · split
      · exact Safe.pure trivial
      · exact blockLoop_safe h c hk hadv _ _

theorem advanceBlockchain_safe (h : Hashes) (blocks : List (Option Bytes)) (bros : List (List (Option Bytes)))
    (hlen : blocks.length < 2 ^ 32) :
    Safe lf (advanceBlockchain h blocks bros) (fun _ => True) (fun e => e = .dongleError) := by
  unfold advanceBlockchain
  dsimp only
  split
  · exact Safe.pure trivial
  · exact doBlockOperation_safe _ _ _ _ (advCfg_chunkOk false) (fun _ => advCfg_chunkOk true) hlen

theorem updateAncestor_safe (h : Hashes) (blocks : List (Option Bytes)) (hlen : blocks.length < 2 ^ 32) :
    Safe lf (updateAncestor h blocks) (fun _ => True) (fun e => e = .dongleError) := by
  unfold updateAncestor
  split
  · exact Safe.pure trivial
  · rename_i opt hopt
    have hl : (opt.map some).length < 2 ^ 32 := by
      have := length_of_mapM_some _ _ hopt
      simpa [this] using hlen
    exact doBlockOperation_safe _ _ _ _ updCfg_chunkOk (fun h => by cases h) hl

end Dongle
end PowHsm
