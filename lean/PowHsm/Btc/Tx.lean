/-
  python-bitcoinlib's transaction / script codec as used by `comm/bitcoin.py`
  (DESIGN Appendix A) and `get_unsigned_tx` (comm/bitcoin.py:26-71).
  Every failure of the Python code on this path is an `Exception` that
  `ledger/protocol.py:306` turns into -102, so failures are `none`.
-/
import PowHsm.Basic.Bytes
namespace PowHsm
namespace Btc

abbrev P (α : Type) := Bytes → Option (α × Bytes)

/-- `ser_read(f, n)` (the MAX_SIZE check also ends in an exception) -/
def readN (n : Nat) : P Bytes := fun b =>
  if n ≤ b.length ∧ n ≤ 0x02000000 then some (b.take n, b.drop n) else none

/-- `VarIntSerializer.stream_deserialize` — accepts non-canonical forms -/
def readVarint : P Nat := fun b =>
  match b with
  | [] => none
  | r :: rest =>
    if r.toNat < 0xfd then some (r.toNat, rest)
    else if r.toNat = 0xfd then (readN 2 rest).map fun (x, t) => (Bytes.leVal x, t)
    else if r.toNat = 0xfe then (readN 4 rest).map fun (x, t) => (Bytes.leVal x, t)
    else (readN 8 rest).map fun (x, t) => (Bytes.leVal x, t)

/-- `VarIntSerializer.serialize` (canonical) -/
def varint (n : Nat) : Bytes :=
  if n < 0xfd then [UInt8.ofNat n]
  else if n ≤ 0xffff then 0xfd :: Bytes.le 2 n
  else if n ≤ 0xffffffff then 0xfe :: Bytes.le 4 n
  else 0xff :: Bytes.le 8 n

/-- `BytesSerializer.stream_deserialize` -/
def readVarBytes : P Bytes := fun b =>
  match readVarint b with
  | none => none
  | some (l, rest) => readN l rest

def varBytes (b : Bytes) : Bytes := varint b.length ++ b

/-- `VectorSerializer.stream_deserialize`: `n` items one after the other -/
def readMany (p : P α) : Nat → P (List α)
  | 0 => fun b => some ([], b)
  | n + 1 => fun b =>
    match p b with
    | none => none
    | some (x, rest) =>
      match readMany p n rest with
      | none => none
      | some (xs, rest') => some (x :: xs, rest')

def readVector (p : P α) : P (List α) := fun b =>
  match readVarint b with
  | none => none
  | some (n, rest) => readMany p n rest

structure TxIn where
  prevHash : Bytes       -- 32 bytes
  prevN : Bytes          -- 4 bytes (LE32)
  script : Bytes
  seq : Bytes            -- 4 bytes (LE32)
  deriving Repr, DecidableEq, Inhabited

structure TxOut where
  value : Bytes          -- 8 bytes (LE signed 64)
  script : Bytes
  deriving Repr, DecidableEq, Inhabited

structure Tx where
  version : Bytes        -- 4 bytes
  vin : List TxIn
  vout : List TxOut
  /-- one stack per input when the segwit form was read; `[]` for the legacy form -/
  wit : List (List Bytes)
  lock : Bytes           -- 4 bytes
  deriving Repr, DecidableEq, Inhabited

def readTxIn : P TxIn := fun b => do
  let (h, b) ← readN 32 b
  let (n, b) ← readN 4 b
  let (s, b) ← readVarBytes b
  let (q, b) ← readN 4 b
  pure (⟨h, n, s, q⟩, b)

def readTxOut : P TxOut := fun b => do
  let (v, b) ← readN 8 b
  let (s, b) ← readVarBytes b
  pure (⟨v, s⟩, b)

/-- `CMutableTransaction.stream_deserialize` -/
def readTx : P Tx := fun b => do
  let (ver, b0) ← readN 4 b
  let (mf, b1) ← readN 2 b0
  if mf = [0, 1] then
    let (vin, b) ← readVector readTxIn b1
    let (vout, b) ← readVector readTxOut b
    let (wit, b) ← readMany (readVector readVarBytes) vin.length b
    let (lock, b) ← readN 4 b
    pure (⟨ver, vin, vout, wit, lock⟩, b)
  else
    let (vin, b) ← readVector readTxIn b0
    let (vout, b) ← readVector readTxOut b
    let (lock, b) ← readN 4 b
    pure (⟨ver, vin, vout, [], lock⟩, b)

/-- `CMutableTransaction.deserialize`: trailing bytes are an error -/
def deserialize (b : Bytes) : Option Tx :=
  match readTx b with
  | some (tx, []) => some tx
  | _ => none

def serTxIn (i : TxIn) : Bytes := i.prevHash ++ i.prevN ++ varBytes i.script ++ i.seq
def serTxOut (o : TxOut) : Bytes := o.value ++ varBytes o.script
def serVector (f : α → Bytes) (xs : List α) : Bytes := varint xs.length ++ (xs.map f).flatten

def witIsNull (w : List (List Bytes)) : Bool := w.all (·.isEmpty)

/-- `serialize()`: segwit form iff some witness stack is non-empty -/
def serialize (t : Tx) : Bytes :=
  if witIsNull t.wit then
    t.version ++ serVector serTxIn t.vin ++ serVector serTxOut t.vout ++ t.lock
  else
    t.version ++ [0, 1] ++ serVector serTxIn t.vin ++ serVector serTxOut t.vout
      ++ (t.wit.map (serVector varBytes)).flatten ++ t.lock

/-! ### scripts -/

/-- what `CScript.__iter__` yields, up to re-encoding: `OP_0`, a data push, any other opcode -/
inductive Elem where
  | zero
  | push (d : Bytes)
  | op (c : UInt8)
  deriving Repr, DecidableEq, Inhabited

/-- `CScript.raw_iter` (fuel = script length; every element consumes at least one byte) -/
def iterScript : Nat → Bytes → Option (List Elem)
  | _, [] => some []
  | 0, _ :: _ => none
  | fuel + 1, c :: rest =>
    if c.toNat > 0x4e then (iterScript fuel rest).map (Elem.op c :: ·)
    else if c.toNat = 0 then (iterScript fuel rest).map (Elem.zero :: ·)
    else
      let lenBytes := if c.toNat < 0x4c then 0 else if c.toNat = 0x4c then 1
        else if c.toNat = 0x4d then 2 else 4
      if rest.length < lenBytes then none        -- CScriptInvalidError
      else
        let n := if c.toNat < 0x4c then c.toNat else Bytes.leVal (rest.take lenBytes)
        let body := rest.drop lenBytes
        if body.length < n then none             -- CScriptTruncatedPushDataError
        else (iterScript fuel (body.drop n)).map (Elem.push (body.take n) :: ·)

def elems (s : Bytes) : Option (List Elem) := iterScript s.length s

/-- `CScriptOp.encode_op_pushdata` -/
def pushData (d : Bytes) : Bytes :=
  if d.length < 0x4c then UInt8.ofNat d.length :: d
  else if d.length ≤ 0xff then 0x4c :: UInt8.ofNat d.length :: d
  else if d.length ≤ 0xffff then 0x4d :: (Bytes.le 2 d.length ++ d)
  else 0x4e :: (Bytes.le 4 d.length ++ d)

/-- `CScript([x])` for one element as yielded by `__iter__` -/
def Elem.encode : Elem → Bytes
  | .zero => [0]
  | .push d => pushData d
  | .op c => [c]

/-- `_clear_all_but_last_op_from_scriptsig`: `ops[-1]` on an empty script is IndexError -/
def clearScript (s : Bytes) : Option Bytes :=
  match elems s with
  | none => none
  | some ops =>
    match ops.getLast? with
    | none => none
    | some l => some (List.replicate (ops.length - 1) (0 : UInt8) ++ l.encode)

def clearIn (i : TxIn) : Option TxIn := (clearScript i.script).map fun s => { i with script := s }

/-- `_unsign_tx` -/
def unsignTx (t : Tx) : Option Tx := (t.vin.mapM clearIn).map fun vin => { t with vin := vin }

/-- `get_unsigned_tx(raw, hex=False)` on the decoded bytes of the hex string -/
def getUnsignedTx (raw : Bytes) : Option Bytes :=
  match deserialize raw with
  | none => none
  | some t => (unsignTx t).map serialize

end Btc
end PowHsm
