import PowHsm.Props.C14
#print axioms PowHsm.Props.C14.fields_preserved
