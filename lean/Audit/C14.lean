import PowHsm.Props.C14
#print axioms PowHsm.Props.C14.fields_preserved
#print axioms PowHsm.Props.C14.inputs_preserved
#print axioms PowHsm.Props.C14.script_shape
#print axioms PowHsm.Props.C14.clear_idempotent
#print axioms PowHsm.Props.C14.signature_independent
#print axioms PowHsm.Props.C14.clear_refuses_iff
#print axioms PowHsm.Props.C14.unsign_refuses_iff
#print axioms PowHsm.Props.C14.unsign_idempotent
#print axioms PowHsm.Props.C14.unsign_wf
#print axioms PowHsm.Props.C14.relayed_fixed_point
#print axioms PowHsm.Props.C14.undecodable_tx_refused
