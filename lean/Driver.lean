/-
  Line-protocol driver: `<op> <input tokens> <impl-output tokens>` per line;
  answers `<EQ|NE> <OK|FAIL> <model-output tokens>`.
  Imports model and spec files only (no Mathlib), so it is built as a `lean_exe`.
-/
import PowHsm.Ops
open PowHsm

def handleLine (line : String) : String :=
  match (line.splitOn " ").filter (· ≠ "") with
  | [] => "ERR empty"
  | op :: toks =>
    match Json.parseOne toks with
    | none => "ERR bad-input"
    | some (input, rest) =>
      match Json.parseOne rest with
      | none => "ERR bad-impl-output"
      | some (implOut, _) =>
        match Ops.run op input implOut with
        | none => "ERR bad-op-or-args " ++ op
        | some (modelOut, verdict) =>
          let modelOut := modelOut.normalize
          let eq := if modelOut == implOut.normalize then "EQ" else "NE"
          let v := if verdict then "OK" else "FAIL"
          eq ++ " " ++ v ++ " " ++ modelOut.encode

partial def loop (h : IO.FS.Stream) (out : IO.FS.Stream) : IO Unit := do
  let line ← h.getLine
  if line.isEmpty then return ()
  out.putStrLn (handleLine (line.trimAscii.toString))
  loop h out

def main : IO Unit := do
  let out ← IO.getStdout
  loop (← IO.getStdin) out
  out.flush
