import PowHsm.Basic.Bytes
import PowHsm.Basic.Json
