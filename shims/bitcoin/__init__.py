# Pure-Python shim of the top-level `bitcoin` package of python-bitcoinlib
# 0.12.2. Only `bitcoin.core` (+ `.script`, `.serialize`, `.bignum`) is
# provided; chain-parameter selection (MainParams/SelectParams), wallet, rpc,
# net, signing etc. are NOT part of this shim. See /verif/shims/README.md.
#
# Put /verif/shims first on sys.path/PYTHONPATH so that this package shadows
# the unrelated `bitcoin` 1.1.42 (pybitcointools) distribution in /venv.

__version__ = '0.12.2'

# Marker so callers/tests can tell the shim from the real library.
__shim__ = True
