# Pure-Python shim of python-bitcoinlib 0.12.2 `bitcoin.core`.
#
# Re-implementation (from the documented/observable semantics of
# python-bitcoinlib 0.12.2) of the subset needed by the powHSM middleware
# (/repo/middleware/comm/bitcoin.py). See /verif/shims/README.md.

"""Basic core definitions, data structures and (de)serialization
(shim of python-bitcoinlib 0.12.2)"""

import binascii
import struct

from . import bignum  # noqa: F401  (reachable as bitcoin.core.bignum)
from . import script  # noqa: F401  (reachable as bitcoin.core.script)
from .script import CScript, CScriptWitness, CScriptOp, OP_RETURN  # noqa: F401

from .serialize import *  # noqa: F401,F403
from .serialize import (
    ImmutableSerializable,
    Serializable,
    BytesSerializer,
    VectorSerializer,
    Hash,
    ser_read,
)

# Core definitions
COIN = 100000000
MAX_BLOCK_SIZE = 1000000
MAX_BLOCK_WEIGHT = 4000000
MAX_BLOCK_SIGOPS = MAX_BLOCK_SIZE / 50
WITNESS_COINBASE_SCRIPTPUBKEY_MAGIC = bytes([OP_RETURN, 0x24, 0xaa, 0x21, 0xa9, 0xed])
MAX_MONEY = 21000000 * COIN


def MoneyRange(nValue, params=None):
    return 0 <= nValue <= MAX_MONEY


def x(h):
    """Convert a hex string to bytes"""
    return binascii.unhexlify(h.encode('utf8'))


def b2x(b):
    """Convert bytes to a hex string"""
    return binascii.hexlify(b).decode('utf8')


def lx(h):
    """Convert a little-endian hex string to bytes

    Lets you write uint256's and uint160's the way the Satoshi codebase shows
    them.
    """
    return binascii.unhexlify(h.encode('utf8'))[::-1]


def b2lx(b):
    """Convert bytes to a little-endian hex string

    Lets you show uint256's and uint160's the way the Satoshi codebase shows
    them.
    """
    return binascii.hexlify(b[::-1]).decode('utf8')


def str_money_value(value):
    """Convert an integer money value to a fixed point string"""
    r = '%i.%08i' % (value // COIN, value % COIN)
    r = r.rstrip('0')
    if r[-1] == '.':
        r += '0'
    return r


class ValidationError(Exception):
    """Base class for all blockchain validation errors

    Everything that is related to validating the blockchain, blocks,
    transactions, scripts, etc. is derived from this class.
    """


def __make_mutable(cls):
    # For speed we use a class decorator that removes the immutable
    # restrictions directly. In addition the modified behavior of GetHash() and
    # hash() is undone.
    cls.__setattr__ = object.__setattr__
    cls.__delattr__ = object.__delattr__
    cls.GetHash = Serializable.GetHash
    cls.__hash__ = Serializable.__hash__
    return cls


class COutPoint(ImmutableSerializable):
    """The combination of a transaction hash and an index n into its vout"""
    __slots__ = ['hash', 'n']

    def __init__(self, hash=b'\x00' * 32, n=0xffffffff):
        if not len(hash) == 32:
            raise ValueError(
                'COutPoint: hash must be exactly 32 bytes; got %d bytes' % len(hash))
        object.__setattr__(self, 'hash', hash)
        if not (0 <= n <= 0xffffffff):
            raise ValueError(
                'COutPoint: n must be in range 0x0 to 0xffffffff; got %x' % n)
        object.__setattr__(self, 'n', n)

    @classmethod
    def stream_deserialize(cls, f):
        hash = ser_read(f, 32)
        n = struct.unpack(b"<I", ser_read(f, 4))[0]
        return cls(hash, n)

    def stream_serialize(self, f):
        assert len(self.hash) == 32
        f.write(self.hash)
        f.write(struct.pack(b"<I", self.n))

    def is_null(self):
        return ((self.hash == b'\x00' * 32) and (self.n == 0xffffffff))

    def __repr__(self):
        if self.is_null():
            return 'COutPoint()'
        else:
            return 'COutPoint(lx(%r), %i)' % (b2lx(self.hash), self.n)

    def __str__(self):
        return '%s:%i' % (b2lx(self.hash), self.n)

    @classmethod
    def from_outpoint(cls, outpoint):
        """Create an immutable copy of an existing OutPoint

        If outpoint is already immutable (outpoint.__class__ is COutPoint) it is
        returned directly.
        """
        if outpoint.__class__ is COutPoint:
            return outpoint

        else:
            return cls(outpoint.hash, outpoint.n)


@__make_mutable
class CMutableOutPoint(COutPoint):
    """A mutable COutPoint"""
    __slots__ = []

    @classmethod
    def from_outpoint(cls, outpoint):
        """Create a mutable copy of an existing COutPoint"""
        return cls(outpoint.hash, outpoint.n)


class CTxIn(ImmutableSerializable):
    """An input of a transaction

    Contains the location of the previous transaction's output that it claims,
    and a signature that matches the output's public key.
    """
    __slots__ = ['prevout', 'scriptSig', 'nSequence']

    def __init__(self, prevout=COutPoint(), scriptSig=CScript(), nSequence=0xffffffff):
        if not (0 <= nSequence <= 0xffffffff):
            raise ValueError(
                'CTxIn: nSequence must be an integer between 0x0 and 0xffffffff; '
                'got %x' % nSequence)
        object.__setattr__(self, 'nSequence', nSequence)
        object.__setattr__(self, 'prevout', prevout)
        object.__setattr__(self, 'scriptSig', scriptSig)

    @classmethod
    def stream_deserialize(cls, f):
        prevout = COutPoint.stream_deserialize(f)
        scriptSig = script.CScript(BytesSerializer.stream_deserialize(f))
        nSequence = struct.unpack(b"<I", ser_read(f, 4))[0]
        return cls(prevout, scriptSig, nSequence)

    def stream_serialize(self, f):
        COutPoint.stream_serialize(self.prevout, f)
        BytesSerializer.stream_serialize(self.scriptSig, f)
        f.write(struct.pack(b"<I", self.nSequence))

    def is_final(self):
        return (self.nSequence == 0xffffffff)

    def __repr__(self):
        return "CTxIn(%s, %s, 0x%x)" % (
            repr(self.prevout), repr(self.scriptSig), self.nSequence)

    @classmethod
    def from_txin(cls, txin):
        """Create an immutable copy of an existing TxIn

        If txin is already immutable (txin.__class__ is CTxIn) it is returned
        directly.
        """
        if txin.__class__ is CTxIn:
            return txin

        else:
            return cls(COutPoint.from_outpoint(txin.prevout), txin.scriptSig,
                       txin.nSequence)


@__make_mutable
class CMutableTxIn(CTxIn):
    """A mutable CTxIn"""
    __slots__ = []

    def __init__(self, prevout=None, scriptSig=CScript(), nSequence=0xffffffff):
        if not (0 <= nSequence <= 0xffffffff):
            raise ValueError(
                'CTxIn: nSequence must be an integer between 0x0 and 0xffffffff; '
                'got %x' % nSequence)
        self.nSequence = nSequence

        if prevout is None:
            prevout = CMutableOutPoint()
        self.prevout = prevout
        self.scriptSig = scriptSig

    @classmethod
    def from_txin(cls, txin):
        """Create a fully mutable copy of an existing TxIn"""
        prevout = CMutableOutPoint.from_outpoint(txin.prevout)
        return cls(prevout, txin.scriptSig, txin.nSequence)


class CTxOut(ImmutableSerializable):
    """An output of a transaction

    Contains the public key that the next input must be able to sign with to
    claim it.
    """
    __slots__ = ['nValue', 'scriptPubKey']

    def __init__(self, nValue=-1, scriptPubKey=script.CScript()):
        object.__setattr__(self, 'nValue', int(nValue))
        object.__setattr__(self, 'scriptPubKey', scriptPubKey)

    @classmethod
    def stream_deserialize(cls, f):
        nValue = struct.unpack(b"<q", ser_read(f, 8))[0]
        scriptPubKey = script.CScript(BytesSerializer.stream_deserialize(f))
        return cls(nValue, scriptPubKey)

    def stream_serialize(self, f):
        f.write(struct.pack(b"<q", self.nValue))
        BytesSerializer.stream_serialize(self.scriptPubKey, f)

    def is_valid(self):
        if not MoneyRange(self.nValue):
            return False
        if not self.scriptPubKey.is_valid():
            return False
        return True

    def __repr__(self):
        if self.nValue >= 0:
            return "CTxOut(%s*COIN, %r)" % (
                str_money_value(self.nValue), self.scriptPubKey)
        else:
            return "CTxOut(%d, %r)" % (self.nValue, self.scriptPubKey)

    @classmethod
    def from_txout(cls, txout):
        """Create an immutable copy of an existing TxOut

        If txout is already immutable (txout.__class__ is CTxOut) then it will
        be returned directly.
        """
        if txout.__class__ is CTxOut:
            return txout

        else:
            return cls(txout.nValue, txout.scriptPubKey)


@__make_mutable
class CMutableTxOut(CTxOut):
    """A mutable CTxOut"""
    __slots__ = []

    @classmethod
    def from_txout(cls, txout):
        """Create a fully mutable copy of an existing TxOut"""
        return cls(txout.nValue, txout.scriptPubKey)


class CTxInWitness(ImmutableSerializable):
    """Witness data for a single transaction input"""
    __slots__ = ['scriptWitness']

    def __init__(self, scriptWitness=CScriptWitness()):
        object.__setattr__(self, 'scriptWitness', scriptWitness)

    def is_null(self):
        return self.scriptWitness.is_null()

    @classmethod
    def stream_deserialize(cls, f):
        scriptWitness = CScriptWitness.stream_deserialize(f)
        return cls(scriptWitness)

    def stream_serialize(self, f):
        self.scriptWitness.stream_serialize(f)

    def __repr__(self):
        return "CTxInWitness(%s)" % (repr(self.scriptWitness))

    @classmethod
    def from_txinwitness(cls, txinwitness):
        """Create an immutable copy of an existing TxInWitness

        If txin is already immutable (txin.__class__ is CTxIn) it is returned
        directly.
        """
        if txinwitness.__class__ is CTxInWitness:
            return txinwitness

        else:
            return cls(txinwitness.scriptWitness)


class CTxWitness(ImmutableSerializable):
    """Witness data for all inputs to a transaction"""
    __slots__ = ['vtxinwit']

    def __init__(self, vtxinwit=()):
        object.__setattr__(self, 'vtxinwit', vtxinwit)

    def is_null(self):
        for n in range(len(self.vtxinwit)):
            if not self.vtxinwit[n].is_null():
                return False
        return True

    # NOTE: as upstream, this cannot be a @classmethod like the others because
    # we need to know how many items to deserialize, which comes from len(vin)
    def stream_deserialize(self, f):
        vtxinwit = tuple(CTxInWitness.stream_deserialize(f)
                         for dummy in range(len(self.vtxinwit)))
        return CTxWitness(vtxinwit)

    def stream_serialize(self, f):
        for i in range(len(self.vtxinwit)):
            self.vtxinwit[i].stream_serialize(f)

    def __repr__(self):
        return "CTxWitness(%s)" % (','.join(repr(w) for w in self.vtxinwit))

    @classmethod
    def from_txwitness(cls, txwitness):
        """Create an immutable copy of an existing TxWitness

        If txwitness is already immutable (txwitness.__class__ is CTxWitness) it
        is returned directly.
        """
        if txwitness.__class__ is CTxWitness:
            return txwitness
        else:
            return cls(txwitness.vtxinwit)


class CTransaction(ImmutableSerializable):
    """A transaction"""
    __slots__ = ['nVersion', 'vin', 'vout', 'nLockTime', 'wit']

    def __init__(self, vin=(), vout=(), nLockTime=0, nVersion=1, witness=CTxWitness()):
        """Create a new transaction

        vin and vout are iterables of transaction inputs and outputs
        respectively. If their contents are not already immutable, immutable
        copies will be made.
        """
        if not (0 <= nLockTime <= 0xffffffff):
            raise ValueError(
                'CTransaction: nLockTime must be in range 0x0 to 0xffffffff; '
                'got %x' % nLockTime)
        object.__setattr__(self, 'nLockTime', nLockTime)
        object.__setattr__(self, 'nVersion', nVersion)
        object.__setattr__(self, 'vin', tuple(CTxIn.from_txin(txin) for txin in vin))
        object.__setattr__(self, 'vout',
                           tuple(CTxOut.from_txout(txout) for txout in vout))
        object.__setattr__(self, 'wit', CTxWitness.from_txwitness(witness))

    @classmethod
    def stream_deserialize(cls, f):
        """Deserialize transaction

        This implementation corresponds to Bitcoin's SerializeTransaction() and
        consensus behavior. Note that Bitcoin's DecodeHexTx() also has the
        option to attempt deserializing as a non-witness transaction first,
        falling back to the consensus behavior if it fails. The difference lies
        in transactions which have zero inputs: they are invalid but may be
        (de)serialized anyway for the purpose of signing them and adding
        inputs. If the behavior of DecodeHexTx() is needed it could be added,
        but not here.
        """
        # As upstream: assumes f is seekable. Both the marker and the flag
        # byte are read up-front; only the exact pair (0x00, 0x01) selects the
        # segwit form. Anything else (including marker 0x00 with another
        # flag) rewinds and parses the legacy form.
        nVersion = struct.unpack(b"<i", ser_read(f, 4))[0]
        pos = f.tell()
        markerbyte = struct.unpack(b'B', ser_read(f, 1))[0]
        flagbyte = struct.unpack(b'B', ser_read(f, 1))[0]
        if markerbyte == 0 and flagbyte == 1:
            vin = VectorSerializer.stream_deserialize(CTxIn, f)
            vout = VectorSerializer.stream_deserialize(CTxOut, f)
            wit = CTxWitness(tuple(0 for dummy in range(len(vin))))
            wit = wit.stream_deserialize(f)
            nLockTime = struct.unpack(b"<I", ser_read(f, 4))[0]
            return cls(vin, vout, nLockTime, nVersion, wit)
        else:
            f.seek(pos)  # put marker byte back, since we don't have peek
            vin = VectorSerializer.stream_deserialize(CTxIn, f)
            vout = VectorSerializer.stream_deserialize(CTxOut, f)
            nLockTime = struct.unpack(b"<I", ser_read(f, 4))[0]
            return cls(vin, vout, nLockTime, nVersion)

    def stream_serialize(self, f, include_witness=True):
        f.write(struct.pack(b"<i", self.nVersion))
        if include_witness and not self.wit.is_null():
            assert (len(self.wit.vtxinwit) <= len(self.vin))
            f.write(b'\x00')  # Marker
            f.write(b'\x01')  # Flag
            VectorSerializer.stream_serialize(CTxIn, self.vin, f)
            VectorSerializer.stream_serialize(CTxOut, self.vout, f)
            self.wit.stream_serialize(f)
        else:
            VectorSerializer.stream_serialize(CTxIn, self.vin, f)
            VectorSerializer.stream_serialize(CTxOut, self.vout, f)
        f.write(struct.pack(b"<I", self.nLockTime))

    def is_coinbase(self):
        return len(self.vin) == 1 and self.vin[0].prevout.is_null()

    def has_witness(self):
        """True if witness"""
        return not self.wit.is_null()

    def __repr__(self):
        return "CTransaction(%r, %r, %i, %i, %r)" % (
            self.vin, self.vout, self.nLockTime, self.nVersion, self.wit)

    @classmethod
    def from_tx(cls, tx):
        """Create an immutable copy of a pre-existing transaction

        If tx is already immutable (tx.__class__ is CTransaction) then it will
        be returned directly.
        """
        if tx.__class__ is CTransaction:
            return tx

        else:
            return cls(tx.vin, tx.vout, tx.nLockTime, tx.nVersion, tx.wit)

    def GetTxid(self):
        """Get the transaction ID.  This differs from the transactions hash as
            given by GetHash.  GetTxid excludes witness data, while GetHash
            includes it. """
        if self.wit != CTxWitness():
            txid = Hash(CTransaction(self.vin, self.vout, self.nLockTime,
                                     self.nVersion).serialize())
        else:
            txid = Hash(self.serialize())
        return txid


@__make_mutable
class CMutableTransaction(CTransaction):
    """A mutable transaction"""
    __slots__ = []

    def __init__(self, vin=None, vout=None, nLockTime=0, nVersion=1, witness=None):
        if not (0 <= nLockTime <= 0xffffffff):
            raise ValueError(
                'CTransaction: nLockTime must be in range 0x0 to 0xffffffff; '
                'got %x' % nLockTime)
        self.nLockTime = nLockTime

        if vin is None:
            vin = []
        self.vin = vin

        if vout is None:
            vout = []
        self.vout = vout
        self.nVersion = nVersion

        if witness is None:
            witness = CTxWitness([CTxInWitness() for dummy in range(len(vin))])
        self.wit = witness

    @classmethod
    def from_tx(cls, tx):
        """Create a fully mutable copy of a pre-existing transaction"""
        vin = [CMutableTxIn.from_txin(txin) for txin in tx.vin]
        vout = [CMutableTxOut.from_txout(txout) for txout in tx.vout]

        return cls(vin, vout, tx.nLockTime, tx.nVersion, tx.wit)


class CBlockHeader(ImmutableSerializable):
    """A block header"""
    __slots__ = ['nVersion', 'hashPrevBlock', 'hashMerkleRoot', 'nTime', 'nBits',
                 'nNonce']

    def __init__(self, nVersion=2, hashPrevBlock=b'\x00' * 32,
                 hashMerkleRoot=b'\x00' * 32, nTime=0, nBits=0, nNonce=0):
        object.__setattr__(self, 'nVersion', nVersion)
        assert len(hashPrevBlock) == 32
        object.__setattr__(self, 'hashPrevBlock', hashPrevBlock)
        assert len(hashMerkleRoot) == 32
        object.__setattr__(self, 'hashMerkleRoot', hashMerkleRoot)
        object.__setattr__(self, 'nTime', nTime)
        object.__setattr__(self, 'nBits', nBits)
        object.__setattr__(self, 'nNonce', nNonce)

    @classmethod
    def stream_deserialize(cls, f):
        nVersion = struct.unpack(b"<i", ser_read(f, 4))[0]
        hashPrevBlock = ser_read(f, 32)
        hashMerkleRoot = ser_read(f, 32)
        nTime = struct.unpack(b"<I", ser_read(f, 4))[0]
        nBits = struct.unpack(b"<I", ser_read(f, 4))[0]
        nNonce = struct.unpack(b"<I", ser_read(f, 4))[0]
        return cls(nVersion, hashPrevBlock, hashMerkleRoot, nTime, nBits, nNonce)

    def stream_serialize(self, f):
        f.write(struct.pack(b"<i", self.nVersion))
        assert len(self.hashPrevBlock) == 32
        f.write(self.hashPrevBlock)
        assert len(self.hashMerkleRoot) == 32
        f.write(self.hashMerkleRoot)
        f.write(struct.pack(b"<I", self.nTime))
        f.write(struct.pack(b"<I", self.nBits))
        f.write(struct.pack(b"<I", self.nNonce))

    @staticmethod
    def calc_difficulty(nBits):
        """Calculate difficulty from nBits target"""
        nShift = (nBits >> 24) & 0xff
        dDiff = float(0x0000ffff) / float(nBits & 0x00ffffff)
        while nShift < 29:
            dDiff *= 256.0
            nShift += 1
        while nShift > 29:
            dDiff /= 256.0
            nShift -= 1
        return dDiff
    difficulty = property(lambda self: CBlockHeader.calc_difficulty(self.nBits))

    def __repr__(self):
        return "%s(%i, lx(%s), lx(%s), %s, 0x%08x, 0x%08x)" % (
            self.__class__.__name__, self.nVersion, b2lx(self.hashPrevBlock),
            b2lx(self.hashMerkleRoot), self.nTime, self.nBits, self.nNonce)


__all__ = (
    'Hash',
    'Hash160',
    'COIN',
    'MAX_BLOCK_SIZE',
    'MAX_BLOCK_WEIGHT',
    'MAX_BLOCK_SIGOPS',
    'WITNESS_COINBASE_SCRIPTPUBKEY_MAGIC',
    'MAX_MONEY',
    'MoneyRange',
    'x',
    'b2x',
    'lx',
    'b2lx',
    'str_money_value',
    'ValidationError',
    'COutPoint',
    'CMutableOutPoint',
    'CTxIn',
    'CMutableTxIn',
    'CTxOut',
    'CMutableTxOut',
    'CTransaction',
    'CMutableTransaction',
    'CTxWitness',
    'CTxInWitness',
    'CBlockHeader',
)
