# Pure-Python shim of python-bitcoinlib 0.12.2 `bitcoin.core.bignum`
# (named `_bignum` in later releases). See /verif/shims/README.md.

"""Bignum routines (shim of python-bitcoinlib 0.12.2)"""

import struct


def bn_bytes(v, have_ext=False):
    ext = 0
    if have_ext:
        ext = 1
    return ((v.bit_length() + 7) // 8) + ext


def bn2bin(v):
    s = bytearray()
    i = bn_bytes(v)
    while i > 0:
        s.append((v >> ((i - 1) * 8)) & 0xff)
        i -= 1
    return s


def bin2bn(s):
    l = 0  # noqa: E741
    for ch in s:
        l = (l << 8) | ch  # noqa: E741
    return l


def bn2mpi(v):
    have_ext = False
    if v.bit_length() > 0:
        have_ext = (v.bit_length() & 0x07) == 0

    neg = False
    if v < 0:
        neg = True
        v = -v

    s = struct.pack(b">I", bn_bytes(v, have_ext))
    ext = bytearray()
    if have_ext:
        ext.append(0)
    v_bin = bn2bin(v)
    if neg:
        if have_ext:
            ext[0] |= 0x80
        else:
            v_bin[0] |= 0x80
    return s + ext + v_bin


def mpi2bn(s):
    if len(s) < 4:
        return None
    s_size = bytes(s[:4])
    v_len = struct.unpack(b">I", s_size)[0]
    if len(s) != (v_len + 4):
        return None
    if v_len == 0:
        return 0

    v_str = bytearray(s[4:])
    neg = False
    i = v_str[0]
    if i & 0x80:
        neg = True
        i &= ~0x80
        v_str[0] = i

    v = bin2bn(v_str)

    if neg:
        return -v
    return v


def bn2vch(v):
    """Bitcoin-specific little endian sign-magnitude encoding of bignums

    0 -> b''; otherwise the magnitude in little-endian byte order, with the
    most significant bit of the last byte being the sign bit (an extra byte
    is appended if the magnitude already uses that bit).
    """
    return bytes(reversed(bn2mpi(v)[4:]))


def vch2mpi(s):
    r = struct.pack(b">I", len(s))  # size
    r += s[::-1]  # reverse string, converting LE->BE
    return r


def vch2bn(s):
    return mpi2bn(vch2mpi(s))
