# Pure-Python shim of python-bitcoinlib 0.12.2 `bitcoin.core.serialize`.
#
# Re-implementation (from the documented/observable semantics of
# python-bitcoinlib 0.12.2) of the subset needed by the powHSM middleware.
# See /verif/shims/README.md.

"""Serialization routines (shim of python-bitcoinlib 0.12.2)"""

import hashlib
import struct

from io import BytesIO

MAX_SIZE = 0x02000000


def Hash(msg):
    """SHA256^2)(msg) -> bytes"""
    return hashlib.sha256(hashlib.sha256(msg).digest()).digest()


def Hash160(msg):
    """RIPEME160(SHA256(msg)) -> bytes"""
    h = hashlib.new('ripemd160')
    h.update(hashlib.sha256(msg).digest())
    return h.digest()


class SerializationError(Exception):
    """Base class for serialization errors"""


class SerializationTruncationError(SerializationError):
    """Serialized data was truncated

    Thrown by deserialize() and stream_deserialize()
    """


class DeserializationExtraDataError(SerializationError):
    """Deserialized data had extra data at the end

    Thrown by deserialize() when not all data is consumed during
    deserialization. The deserialized object and extra padding not consumed are
    saved.
    """
    def __init__(self, msg, obj, padding):
        super(DeserializationExtraDataError, self).__init__(msg)
        self.obj = obj
        self.padding = padding


def ser_read(f, n):
    """Read from a stream safely

    Raises SerializationError and SerializationTruncationError appropriately.
    Use this instead of f.read() in your classes stream_(de)serialization()
    functions.
    """
    if n > MAX_SIZE:
        raise SerializationError('Asked to read 0x%x bytes; MAX_SIZE exceeded' % n)
    r = f.read(n)
    if len(r) < n:
        raise SerializationTruncationError(
            'Asked to read %i bytes, but only got %i' % (n, len(r)))
    return r


class Serializable(object):
    """Base class for serializable objects"""

    __slots__ = []

    def stream_serialize(self, f, **kwargs):
        """Serialize to a stream"""
        raise NotImplementedError

    @classmethod
    def stream_deserialize(cls, f, **kwargs):
        """Deserialize from a stream"""
        raise NotImplementedError

    def serialize(self, params={}):
        """Serialize, returning bytes"""
        f = BytesIO()
        self.stream_serialize(f, **params)
        return f.getvalue()

    @classmethod
    def deserialize(cls, buf, allow_padding=False, params={}):
        """Deserialize bytes, returning an instance

        allow_padding - Allow buf to include extra padding. (default False)

        If allow_padding is False and not all bytes are consumed during
        deserialization DeserializationExtraDataError will be raised.
        """
        fd = BytesIO(buf)
        r = cls.stream_deserialize(fd, **params)
        if not allow_padding:
            padding = fd.read()
            if len(padding) != 0:
                raise DeserializationExtraDataError(
                    'Not all bytes consumed during deserialization', r, padding)
        return r

    def GetHash(self):
        """Return the hash of the serialized object"""
        return Hash(self.serialize())

    def __eq__(self, other):
        if (not isinstance(other, self.__class__) and
                not isinstance(self, other.__class__)):
            return NotImplemented
        return self.serialize() == other.serialize()

    def __ne__(self, other):
        return not (self == other)

    def __hash__(self):
        return hash(self.serialize())


class ImmutableSerializable(Serializable):
    """Immutable serializable object"""

    __slots__ = ['_cached_GetHash', '_cached__hash__']

    def __setattr__(self, name, value):
        raise AttributeError('Object is immutable')

    def __delattr__(self, name):
        raise AttributeError('Object is immutable')

    def GetHash(self):
        """Return the hash of the serialized object"""
        try:
            return self._cached_GetHash
        except AttributeError:
            _cached_GetHash = super(ImmutableSerializable, self).GetHash()
            object.__setattr__(self, '_cached_GetHash', _cached_GetHash)
            return _cached_GetHash

    def __hash__(self):
        try:
            return self._cached__hash__
        except AttributeError:
            _cached__hash__ = hash(self.serialize())
            object.__setattr__(self, '_cached__hash__', _cached__hash__)
            return _cached__hash__


class Serializer(object):
    """Base class for object serializers"""
    def __new__(cls):
        raise NotImplementedError

    @classmethod
    def stream_serialize(cls, obj, f):
        raise NotImplementedError

    @classmethod
    def stream_deserialize(cls, f):
        raise NotImplementedError

    @classmethod
    def serialize(cls, obj):
        f = BytesIO()
        cls.stream_serialize(obj, f)
        return f.getvalue()

    @classmethod
    def deserialize(cls, buf):
        if isinstance(buf, str) or isinstance(buf, bytes):
            buf = BytesIO(buf)
        return cls.stream_deserialize(buf)


class VarIntSerializer(Serializer):
    """Serialization of variable length ints"""
    @classmethod
    def stream_serialize(cls, i, f):
        if i < 0:
            raise ValueError('varint must be non-negative integer')
        elif i < 0xfd:
            f.write(bytes([i]))
        elif i <= 0xffff:
            f.write(b'\xfd')
            f.write(struct.pack(b'<H', i))
        elif i <= 0xffffffff:
            f.write(b'\xfe')
            f.write(struct.pack(b'<I', i))
        else:
            f.write(b'\xff')
            f.write(struct.pack(b'<Q', i))

    @classmethod
    def stream_deserialize(cls, f):
        r = ser_read(f, 1)[0]
        if r < 0xfd:
            return r
        elif r == 0xfd:
            return struct.unpack(b'<H', ser_read(f, 2))[0]
        elif r == 0xfe:
            return struct.unpack(b'<I', ser_read(f, 4))[0]
        else:
            return struct.unpack(b'<Q', ser_read(f, 8))[0]


class BytesSerializer(Serializer):
    """Serialization of bytes instances"""
    @classmethod
    def stream_serialize(cls, b, f):
        VarIntSerializer.stream_serialize(len(b), f)
        f.write(b)

    @classmethod
    def stream_deserialize(cls, f):
        l = VarIntSerializer.stream_deserialize(f)  # noqa: E741
        return ser_read(f, l)


class VectorSerializer(Serializer):
    """Base class for serializers of object vectors"""

    @classmethod
    def stream_serialize(cls, inner_cls, objs, f, inner_params={}):
        VarIntSerializer.stream_serialize(len(objs), f)
        for obj in objs:
            inner_cls.stream_serialize(obj, f, **inner_params)

    @classmethod
    def stream_deserialize(cls, inner_cls, f, inner_params={}):
        n = VarIntSerializer.stream_deserialize(f)
        r = []
        for i in range(n):
            r.append(inner_cls.stream_deserialize(f, **inner_params))
        return r


class uint256VectorSerializer(Serializer):
    """Serialize vectors of uint256"""
    @classmethod
    def stream_serialize(cls, uints, f):
        VarIntSerializer.stream_serialize(len(uints), f)
        for uint in uints:
            assert len(uint) == 32
            f.write(uint)

    @classmethod
    def stream_deserialize(cls, f):
        n = VarIntSerializer.stream_deserialize(f)
        r = []
        for i in range(n):
            r.append(ser_read(f, 32))
        return r


class intVectorSerializer(Serializer):
    @classmethod
    def stream_serialize(cls, ints, f):
        l = len(ints)  # noqa: E741
        VarIntSerializer.stream_serialize(l, f)
        for i in ints:
            f.write(struct.pack(b"<i", i))

    @classmethod
    def stream_deserialize(cls, f):
        l = VarIntSerializer.stream_deserialize(f)  # noqa: E741
        ints = []
        for i in range(l):
            ints.append(struct.unpack(b"<i", ser_read(f, 4))[0])
        return ints


class VarStringSerializer(Serializer):
    """Serialize variable length strings"""
    @classmethod
    def stream_serialize(cls, s, f):
        l = len(s)  # noqa: E741
        VarIntSerializer.stream_serialize(l, f)
        f.write(s)

    @classmethod
    def stream_deserialize(cls, f):
        l = VarIntSerializer.stream_deserialize(f)  # noqa: E741
        return ser_read(f, l)


def uint256_from_str(s):
    """Convert bytes to uint256"""
    r = 0
    t = struct.unpack(b"<IIIIIIII", s[:32])
    for i in range(8):
        r += t[i] << (i * 32)
    return r


def uint256_from_compact(c):
    """Convert compact encoding to uint256

    Used for the nBits compact encoding of the target in the block header.
    """
    nbytes = (c >> 24) & 0xFF
    if nbytes <= 3:
        v = (c & 0xFFFFFF) >> 8 * (3 - nbytes)
    else:
        v = (c & 0xFFFFFF) << (8 * (nbytes - 3))
    return v


def compact_from_uint256(v):
    """Convert uint256 to compact encoding"""
    nbytes = (v.bit_length() + 7) >> 3
    compact = 0
    if nbytes <= 3:
        compact = (v & 0xFFFFFF) << 8 * (3 - nbytes)
    else:
        compact = v >> 8 * (nbytes - 3)
        compact = compact & 0xFFFFFF

    # If the sign bit (0x00800000) is set, divide the mantissa by 256 and
    # increase the exponent to get an encoding without it set.
    if compact & 0x00800000:
        compact >>= 8
        nbytes += 1

    return compact | nbytes << 24


def uint256_to_str(u):
    r = b""
    for i in range(8):
        r += struct.pack('<I', u >> (i * 32) & 0xffffffff)
    return r


def uint256_to_shortstr(u):
    s = "%064x" % (u,)
    return s[:16]


__all__ = (
    'MAX_SIZE',
    'Hash',
    'Hash160',
    'SerializationError',
    'SerializationTruncationError',
    'DeserializationExtraDataError',
    'ser_read',
    'Serializable',
    'ImmutableSerializable',
    'Serializer',
    'VarIntSerializer',
    'BytesSerializer',
    'VectorSerializer',
    'uint256VectorSerializer',
    'intVectorSerializer',
    'VarStringSerializer',
    'uint256_from_str',
    'uint256_from_compact',
    'compact_from_uint256',
    'uint256_to_str',
    'uint256_to_shortstr',
)
