#!/usr/bin/env python
# Self-check for the python-bitcoinlib 0.12.2 shim in /verif/shims/bitcoin.
#
#   PYTHONPATH=/verif/shims /venv/bin/python /verif/shims/selfcheck.py
#
# Prints "OK (<n> checks)" and exits 0 on success; prints the failures and
# exits 1 otherwise. All vectors are hand-written (or well-known public
# vectors: the Bitcoin genesis block header and a BIP-143 example).

import hashlib
import struct
import sys
import traceback

import bitcoin
import bitcoin.core
from bitcoin.core import (
    x, lx, b2x, b2lx, Hash,
    VarIntSerializer, BytesSerializer, ser_read, MAX_SIZE,
    SerializationError, SerializationTruncationError,
    DeserializationExtraDataError,
    COutPoint, CMutableOutPoint, CTxIn, CMutableTxIn, CTxOut, CMutableTxOut,
    CTransaction, CMutableTransaction, CTxWitness, CTxInWitness,
    CBlockHeader, CScript,
)
from bitcoin.core.script import (
    CScriptOp, CScriptWitness, CScriptInvalidError, CScriptTruncatedPushDataError,
    OP_0, OP_1, OP_2, OP_16, OP_1NEGATE, OP_RESERVED, OP_PUSHDATA1, OP_PUSHDATA2,
    OP_PUSHDATA4, OP_DUP, OP_HASH160, OP_EQUALVERIFY, OP_CHECKSIG,
    OP_CHECKMULTISIG, OP_CODESEPARATOR, OP_NOP,
    FindAndDelete, SignatureHash, RawSignatureHash,
    SIGHASH_ALL, SIGHASH_NONE, SIGHASH_SINGLE, SIGHASH_ANYONECANPAY,
    SIGVERSION_BASE, SIGVERSION_WITNESS_V0,
)
from bitcoin.core.bignum import bn2vch
from io import BytesIO

_checks = 0
_failures = []


def sha256d(b):
    return hashlib.sha256(hashlib.sha256(b).digest()).digest()


def check(name, cond):
    global _checks
    _checks += 1
    if not cond:
        _failures.append(name)


def check_eq(name, actual, expected):
    global _checks
    _checks += 1
    if actual != expected or type(actual) is not type(expected) and not (
            isinstance(actual, bytes) and isinstance(expected, bytes)):
        _failures.append("%s: got %r, expected %r" % (name, actual, expected))


def check_raises(name, exc_cls, fn, exact=True, not_cls=None):
    """fn() must raise exc_cls (exactly that class if exact=True)."""
    global _checks
    _checks += 1
    try:
        fn()
    except Exception as e:
        if exact and type(e) is not exc_cls:
            _failures.append("%s: raised %r, expected exactly %s" %
                             (name, e, exc_cls.__name__))
        elif not isinstance(e, exc_cls):
            _failures.append("%s: raised %r, expected %s" %
                             (name, e, exc_cls.__name__))
        elif not_cls is not None and isinstance(e, not_cls):
            _failures.append("%s: raised %r, which must not be a %s" %
                             (name, e, not_cls.__name__))
        return e
    _failures.append("%s: did not raise %s" % (name, exc_cls.__name__))
    return None


# --------------------------------------------------------------------------
# Hand-written vectors
# --------------------------------------------------------------------------

PREV_HASH_A = bytes(range(0x10, 0x30))           # 32 bytes
PREV_HASH_B = bytes(range(0xa0, 0xc0))           # 32 bytes
P2PKH_SPK = x("76a914") + bytes(range(20)) + x("88ac")            # 25 bytes
P2SH_SPK = x("a914") + bytes(range(100, 120)) + x("87")           # 23 bytes
# 1-of-1 "multisig" redeem script: OP_1 <33-byte key> OP_1 OP_CHECKMULTISIG
REDEEM = x("5121") + b"\x02" + bytes(range(1, 33)) + x("51ae")     # 37 bytes
FAKE_SIG = x("3006020101020101") + b"\x01"                        # 9 bytes
# scriptSig: OP_0 <sig> <redeem>
SCRIPTSIG_A = b"\x00" + bytes([len(FAKE_SIG)]) + FAKE_SIG + bytes([len(REDEEM)]) + REDEEM


def le32(n):
    return struct.pack("<I", n)


def le64s(n):
    return struct.pack("<q", n)


LEGACY_TX = (
    x("01000000") +                                   # nVersion = 1
    x("02") +                                         # 2 inputs
    PREV_HASH_A + le32(0) + bytes([len(SCRIPTSIG_A)]) + SCRIPTSIG_A + x("ffffffff") +
    PREV_HASH_B + le32(7) + x("00") + x("feffffff") +  # empty scriptSig
    x("02") +                                         # 2 outputs
    le64s(5000000000) + bytes([len(P2PKH_SPK)]) + P2PKH_SPK +
    le64s(1234) + bytes([len(P2SH_SPK)]) + P2SH_SPK +
    x("11223344")                                     # nLockTime = 0x44332211
)

WIT_ITEM_0 = b""
WIT_ITEM_1 = bytes(range(0x40, 0x48))
WIT_ITEM_2 = b"\xab" * 0xfd                           # needs a 3-byte varint length
SEGWIT_BODY_INS_OUTS = (
    x("02") +
    PREV_HASH_A + le32(0) + x("00") + x("ffffffff") +
    PREV_HASH_B + le32(1) + x("00") + x("fdffffff") +
    x("01") +
    le64s(99999) + bytes([len(P2PKH_SPK)]) + P2PKH_SPK
)
SEGWIT_WITNESS = (
    x("03") + x("00") + bytes([len(WIT_ITEM_1)]) + WIT_ITEM_1 +
    x("fdfd00") + WIT_ITEM_2 +                        # input 0: 3 stack items
    x("00")                                            # input 1: empty stack
)
SEGWIT_TX = (x("02000000") + x("0001") + SEGWIT_BODY_INS_OUTS + SEGWIT_WITNESS +
             x("00000000"))
SEGWIT_TX_STRIPPED = x("02000000") + SEGWIT_BODY_INS_OUTS + x("00000000")


def test_package_identity():
    check("shim shadows installed bitcoin package",
          bitcoin.__file__.replace("\\", "/").endswith("/shims/bitcoin/__init__.py"))
    check("bitcoin.core.script reachable via attribute",
          bitcoin.core.script.SignatureHash is SignatureHash)
    check_eq("SIGHASH/SIGVERSION constants",
             (SIGHASH_ALL, SIGHASH_NONE, SIGHASH_SINGLE, SIGHASH_ANYONECANPAY,
              SIGVERSION_BASE, SIGVERSION_WITNESS_V0), (1, 2, 3, 0x80, 0, 1))


def test_helpers():
    check_eq("x", x("00ff10"), b"\x00\xff\x10")
    check_eq("lx", lx("00ff10"), b"\x10\xff\x00")
    check_eq("b2x", b2x(b"\x00\xff\x10"), "00ff10")
    check_eq("b2lx", b2lx(b"\x00\xff\x10"), "10ff00")
    check_eq("Hash", Hash(b"abc"), sha256d(b"abc"))


def test_varint():
    vectors = [
        (0, "00"), (1, "01"), (0xfc, "fc"),
        (0xfd, "fdfd00"), (0xffff, "fdffff"),
        (0x10000, "fe00000100"), (0xffffffff, "feffffffff"),
        (0x100000000, "ff0000000001000000"),
        (0xffffffffffffffff, "ffffffffffffffffff"),
    ]
    for v, h in vectors:
        check_eq("varint ser %x" % v, b2x(VarIntSerializer.serialize(v)), h)
        check_eq("varint deser %x" % v, VarIntSerializer.deserialize(x(h)), v)
    # Non-canonical encodings are accepted on input
    check_eq("varint noncanonical fd", VarIntSerializer.deserialize(x("fd0100")), 1)
    check_eq("varint noncanonical fe", VarIntSerializer.deserialize(x("fe01000000")), 1)
    check_eq("varint noncanonical ff",
             VarIntSerializer.deserialize(x("ff0100000000000000")), 1)
    check_raises("varint negative", ValueError,
                 lambda: VarIntSerializer.serialize(-1))
    check_raises("varint empty", SerializationTruncationError,
                 lambda: VarIntSerializer.deserialize(b""))
    check_raises("varint truncated fd", SerializationTruncationError,
                 lambda: VarIntSerializer.deserialize(x("fd01")))
    check_raises("varint truncated ff", SerializationTruncationError,
                 lambda: VarIntSerializer.deserialize(x("ff01020304050607")))


def test_ser_read():
    check("exception hierarchy",
          issubclass(SerializationTruncationError, SerializationError) and
          issubclass(DeserializationExtraDataError, SerializationError) and
          issubclass(SerializationError, Exception) and
          not issubclass(SerializationError, ValueError))
    check_eq("MAX_SIZE", MAX_SIZE, 0x02000000)
    check_eq("ser_read ok", ser_read(BytesIO(b"abcd"), 3), b"abc")
    check_raises("ser_read short", SerializationTruncationError,
                 lambda: ser_read(BytesIO(b"ab"), 3))
    check_raises("ser_read > MAX_SIZE", SerializationError,
                 lambda: ser_read(BytesIO(b"ab"), MAX_SIZE + 1))
    # exactly MAX_SIZE is allowed to be attempted -> truncation, not size error
    check_raises("ser_read == MAX_SIZE", SerializationTruncationError,
                 lambda: ser_read(BytesIO(b"ab"), MAX_SIZE))
    check_raises("BytesSerializer oversize", SerializationError,
                 lambda: BytesSerializer.deserialize(x("feffffffff") + b"zz"))
    check_eq("BytesSerializer roundtrip",
             BytesSerializer.deserialize(BytesSerializer.serialize(b"hello")), b"hello")


def test_legacy_tx():
    tx = CMutableTransaction.deserialize(LEGACY_TX)
    check_eq("legacy nVersion", tx.nVersion, 1)
    check_eq("legacy nLockTime", tx.nLockTime, 0x44332211)
    check_eq("legacy len(vin)", len(tx.vin), 2)
    check_eq("legacy len(vout)", len(tx.vout), 2)
    check("legacy vin/vout are lists", type(tx.vin) is list and type(tx.vout) is list)
    check_eq("legacy vin0 prevout hash", tx.vin[0].prevout.hash, PREV_HASH_A)
    check_eq("legacy vin0 prevout n", tx.vin[0].prevout.n, 0)
    check_eq("legacy vin1 prevout n", tx.vin[1].prevout.n, 7)
    check("legacy vin0 scriptSig is CScript", type(tx.vin[0].scriptSig) is CScript)
    check_eq("legacy vin0 scriptSig", bytes(tx.vin[0].scriptSig), SCRIPTSIG_A)
    check_eq("legacy vin1 scriptSig", bytes(tx.vin[1].scriptSig), b"")
    check_eq("legacy vin1 nSequence", tx.vin[1].nSequence, 0xfffffffe)
    check_eq("legacy vout0 nValue", tx.vout[0].nValue, 5000000000)
    check_eq("legacy vout1 spk", bytes(tx.vout[1].scriptPubKey), P2SH_SPK)
    check("legacy witness null", tx.wit.is_null() and not tx.has_witness())
    check_eq("legacy witness slots", len(tx.wit.vtxinwit), 2)
    check_eq("legacy roundtrip", tx.serialize(), LEGACY_TX)
    check_eq("legacy GetHash", tx.GetHash(), sha256d(LEGACY_TX))
    check_eq("legacy GetTxid", tx.GetTxid(), sha256d(LEGACY_TX))
    # Immutable flavour
    itx = CTransaction.deserialize(LEGACY_TX)
    check("immutable vin is tuple", type(itx.vin) is tuple)
    check_eq("immutable roundtrip", itx.serialize(), LEGACY_TX)
    check("immutable == mutable", itx == tx and not (itx != tx))
    check_raises("immutable tx setattr", AttributeError,
                 lambda: setattr(itx, "nVersion", 2))
    check_raises("immutable txin setattr", AttributeError,
                 lambda: setattr(itx.vin[0], "nSequence", 2))
    # Negative version / values are signed
    # (one input: a zero-input tx with one output would start with 00 01, i.e.
    # the segwit marker/flag pair)
    neg = CMutableTransaction.deserialize(
        x("ffffffff") + x("01") + PREV_HASH_A + le32(0) + x("00") + x("ffffffff") +
        x("01") + le64s(-1) + x("00") + x("00000000"))
    check_eq("signed nVersion", neg.nVersion, -1)
    check_eq("signed nValue", neg.vout[0].nValue, -1)
    # Items deserialized by CMutableTransaction are *immutable* CTxIn (as upstream)
    check("deserialized txins are immutable CTxIn", type(tx.vin[0]) is CTxIn)


def test_mutation():
    tx = CMutableTransaction.deserialize(LEGACY_TX)
    h_before = tx.GetHash()
    txin = tx.vin[0]
    m = CMutableTxIn.from_txin(txin)
    check("from_txin type", type(m) is CMutableTxIn)
    check("from_txin prevout mutable copy",
          type(m.prevout) is CMutableOutPoint and m.prevout is not txin.prevout and
          m.prevout == txin.prevout)
    check("from_txin keeps scriptSig/nSequence",
          m.scriptSig == txin.scriptSig and m.nSequence == txin.nSequence)
    ops = list(m.scriptSig)
    check_eq("scriptSig cooked ops", ops, [0, FAKE_SIG, REDEEM])
    m.scriptSig = CScript(([0] * (len(ops) - 1)) + [ops[-1]])
    check_eq("cleared scriptSig", bytes(m.scriptSig),
             b"\x00\x00" + bytes([len(REDEEM)]) + REDEEM)
    check_eq("original txin untouched", bytes(txin.scriptSig), SCRIPTSIG_A)
    tx.vin = [m, CMutableTxIn.from_txin(tx.vin[1])]
    expected = LEGACY_TX.replace(bytes([len(SCRIPTSIG_A)]) + SCRIPTSIG_A,
                                 bytes([len(m.scriptSig)]) + bytes(m.scriptSig))
    check_eq("serialize after vin reassignment", tx.serialize(), expected)
    check("GetHash of mutable tx is not cached",
          tx.GetHash() == sha256d(expected) and tx.GetHash() != h_before)
    m.prevout.n = 5
    check_eq("mutable outpoint", m.prevout.serialize(), PREV_HASH_A + le32(5))
    o = CMutableTxOut.from_txout(tx.vout[0])
    o.nValue = 1
    check_eq("mutable txout", o.serialize(),
             le64s(1) + bytes([len(P2PKH_SPK)]) + P2PKH_SPK)
    check_eq("default CTxOut", CTxOut().serialize(), x("ffffffffffffffff00"))
    check_eq("default COutPoint", COutPoint().serialize(), b"\x00" * 32 + x("ffffffff"))
    check("COutPoint null", COutPoint().is_null())
    check_raises("COutPoint bad hash length", ValueError, lambda: COutPoint(b"\x00" * 31, 0))
    check_raises("CTxIn bad nSequence", ValueError,
                 lambda: CTxIn(COutPoint(), CScript(), 0x100000000))


def test_segwit_tx():
    tx = CMutableTransaction.deserialize(SEGWIT_TX)
    check_eq("segwit nVersion", tx.nVersion, 2)
    check_eq("segwit len(vin)", len(tx.vin), 2)
    check_eq("segwit len(vout)", len(tx.vout), 1)
    check("segwit has witness", tx.has_witness() and not tx.wit.is_null())
    check_eq("segwit n witnesses", len(tx.wit.vtxinwit), 2)
    check_eq("segwit wit0 stack", tuple(tx.wit.vtxinwit[0].scriptWitness.stack),
             (WIT_ITEM_0, WIT_ITEM_1, WIT_ITEM_2))
    check_eq("segwit wit1 stack", tuple(tx.wit.vtxinwit[1].scriptWitness.stack), ())
    check("segwit wit1 null",
          tx.wit.vtxinwit[1].is_null() and not tx.wit.vtxinwit[0].is_null())
    check_eq("segwit roundtrip", tx.serialize(), SEGWIT_TX)
    # GetHash covers the witness serialization (wtxid); GetTxid excludes it
    check_eq("segwit GetHash (with witness)", tx.GetHash(), sha256d(SEGWIT_TX))
    check_eq("segwit GetTxid (no witness)", tx.GetTxid(), sha256d(SEGWIT_TX_STRIPPED))
    check_eq("segwit include_witness=False",
             tx.serialize(params={"include_witness": False}), SEGWIT_TX_STRIPPED)
    # Dropping the witness makes serialize() fall back to the legacy form
    tx.wit = CTxWitness()
    check_eq("segwit stripped serialize", tx.serialize(), SEGWIT_TX_STRIPPED)
    # A segwit-form tx whose witnesses are all empty re-serializes as legacy
    all_null = (x("02000000") + x("0001") + SEGWIT_BODY_INS_OUTS + x("0000") +
                x("00000000"))
    tx2 = CMutableTransaction.deserialize(all_null)
    check("all-null witness is null", tx2.wit.is_null())
    check_eq("all-null witness -> legacy form", tx2.serialize(), SEGWIT_TX_STRIPPED)
    # Non-canonical varints on input are re-serialized canonically
    nc = (x("01000000") + x("fd0100") + PREV_HASH_A + le32(0) + x("fe00000000") +
          x("ffffffff") + x("ff0000000000000000") + x("00000000"))
    tx3 = CMutableTransaction.deserialize(nc)
    check_eq("non-canonical varints canonicalised", tx3.serialize(),
             x("01000000") + x("01") + PREV_HASH_A + le32(0) + x("00") +
             x("ffffffff") + x("00") + x("00000000"))
    # Upstream quirk: only the exact (marker, flag) == (0x00, 0x01) pair selects
    # the segwit form. Marker 0x00 with any other flag is parsed as a legacy
    # transaction with zero inputs (flag byte == number of outputs).
    empty = CMutableTransaction.deserialize(x("01000000" "00" "00" "00000000"))
    check("marker 00 flag 00 -> empty legacy tx",
          empty.vin == [] and empty.vout == [] and empty.nLockTime == 0)
    check_raises("marker 00 flag 02 -> legacy parse, 2 outputs, truncated",
                 SerializationTruncationError,
                 lambda: CMutableTransaction.deserialize(x("01000000" "00" "02" "00000000")))
    # Constructing witnesses by hand
    w = CTxWitness([CTxInWitness(CScriptWitness([b"\x01", b""])), CTxInWitness()])
    check_eq("hand-built witness", w.serialize(), x("02" "0101" "00" "00"))


def test_tx_errors():
    # every strict prefix of a valid tx must fail with a SerializationError
    # subclass (truncation), never anything else
    for raw, label in ((LEGACY_TX, "legacy"), (SEGWIT_TX, "segwit")):
        bad = []
        for i in range(len(raw)):
            try:
                CMutableTransaction.deserialize(raw[:i])
                bad.append((i, "no error"))
            except SerializationTruncationError:
                pass
            except Exception as e:
                bad.append((i, repr(e)))
        check_eq("all prefixes of %s tx truncated" % label, bad, [])
    e = check_raises("legacy trailing garbage", DeserializationExtraDataError,
                     lambda: CMutableTransaction.deserialize(LEGACY_TX + b"\xde\xad"))
    if e is not None:
        check_eq("extra data .padding", e.padding, b"\xde\xad")
        check("extra data .obj", isinstance(e.obj, CMutableTransaction) and
              e.obj.serialize() == LEGACY_TX)
    check_raises("segwit trailing garbage", DeserializationExtraDataError,
                 lambda: CMutableTransaction.deserialize(SEGWIT_TX + b"\x00"))
    ok = CMutableTransaction.deserialize(LEGACY_TX + b"\x00", allow_padding=True)
    check_eq("allow_padding", ok.serialize(), LEGACY_TX)
    # oversize scriptSig length -> SerializationError but *not* truncation
    huge = x("01000000") + x("01") + PREV_HASH_A + le32(0) + x("feffffffff") + b"\x00" * 8
    check_raises("oversize scriptSig", SerializationError,
                 lambda: CMutableTransaction.deserialize(huge),
                 exact=True)


def test_scripts_build():
    # every push encoding
    check_eq("push empty", bytes(CScript([b""])), b"\x00")
    check_eq("push 1", bytes(CScript([b"\x07"])), b"\x01\x07")
    d = b"\x11" * 0x4b
    check_eq("push 0x4b direct", bytes(CScript([d])), b"\x4b" + d)
    d = b"\x22" * 0x4c
    check_eq("push 0x4c PUSHDATA1", bytes(CScript([d])), b"\x4c\x4c" + d)
    d = b"\x33" * 0xff
    check_eq("push 0xff PUSHDATA1", bytes(CScript([d])), b"\x4c\xff" + d)
    d = b"\x44" * 0x100
    check_eq("push 0x100 PUSHDATA2", bytes(CScript([d])), b"\x4d\x00\x01" + d)
    d = b"\x55" * 0xffff
    check_eq("push 0xffff PUSHDATA2", bytes(CScript([d])), b"\x4d\xff\xff" + d)
    d = b"\x66" * 0x10000
    check_eq("push 0x10000 PUSHDATA4", bytes(CScript([d])), b"\x4e\x00\x00\x01\x00" + d)
    check_eq("push bytearray", bytes(CScript([bytearray(b"\x01\x02")])), b"\x02\x01\x02")
    check_eq("encode_op_pushdata", CScriptOp.encode_op_pushdata(b"ab"), b"\x02ab")
    # ints
    check_eq("int 0", bytes(CScript([0])), b"\x00")
    check_eq("int 1..16", bytes(CScript(list(range(1, 17)))), bytes(range(0x51, 0x61)))
    check_eq("int -1", bytes(CScript([-1])), b"\x4f")
    check_eq("int 17", bytes(CScript([17])), b"\x01\x11")
    check_eq("int 127", bytes(CScript([127])), b"\x01\x7f")
    check_eq("int 128", bytes(CScript([128])), b"\x02\x80\x00")
    check_eq("int 255", bytes(CScript([255])), b"\x02\xff\x00")
    check_eq("int 256", bytes(CScript([256])), b"\x02\x00\x01")
    check_eq("int -2", bytes(CScript([-2])), b"\x01\x82")
    check_eq("int -127", bytes(CScript([-127])), b"\x01\xff")
    check_eq("int -128", bytes(CScript([-128])), b"\x02\x80\x80")
    check_eq("int 0x12345678", bytes(CScript([0x12345678])), b"\x04\x78\x56\x34\x12")
    check_eq("bool True", bytes(CScript([True])), b"\x51")
    check_eq("bool False", bytes(CScript([False])), b"\x00")
    check_eq("bn2vch", [bn2vch(v) for v in (0, 1, -1, 127, 128, -128, 32768)],
             [b"", b"\x01", b"\x81", b"\x7f", b"\x80\x00", b"\x80\x80", b"\x00\x80\x00"])
    # opcodes
    check_eq("ops", bytes(CScript([OP_DUP, OP_HASH160, b"\x01" * 20, OP_EQUALVERIFY,
                                   OP_CHECKSIG])),
             x("76a914") + b"\x01" * 20 + x("88ac"))
    check_eq("OP_0 / OP_1NEGATE / OP_RESERVED objects",
             bytes(CScript([OP_0, OP_1NEGATE, OP_RESERVED, OP_16])), x("004f5060"))
    check("CScriptOp interned", CScriptOp(0xac) is OP_CHECKSIG and
          CScriptOp.encode_op_n(0) is OP_0 and CScriptOp.encode_op_n(16) is OP_16)
    check_raises("encode_op_n range", ValueError, lambda: CScriptOp.encode_op_n(17))
    check_raises("decode_op_n non-small-int", ValueError, lambda: OP_NOP.decode_op_n())
    check("is_small_int", OP_0.is_small_int() and OP_1.is_small_int() and
          OP_16.is_small_int() and not OP_1NEGATE.is_small_int() and
          not OP_RESERVED.is_small_int() and not OP_NOP.is_small_int())
    # raw bytes are taken as-is; empty default
    check_eq("raw bytes ctor", bytes(CScript(b"\x51\xae")), b"\x51\xae")
    check_eq("empty ctor", bytes(CScript()), b"")
    check("CScript is bytes subclass", isinstance(CScript(), bytes))
    check_raises("str element", TypeError, lambda: CScript(["abc"]))
    check_raises("None element", TypeError, lambda: CScript([None]))
    check_raises("float element", TypeError, lambda: CScript([1.5]))
    # __add__
    s = CScript([OP_1]) + b"\xaa" + 5 + OP_CHECKSIG
    check("add returns CScript", type(s) is CScript)
    check_eq("add coerces", bytes(s), b"\x51\x01\xaa\x55\xac")
    check_eq("repr", repr(CScript([1, b"\xaa", OP_CHECKSIG, 0, OP_1NEGATE])),
             "CScript([1, x('aa'), OP_CHECKSIG, 0, OP_1NEGATE])")


def test_scripts_iter():
    s = CScript(x("00" "4f" "50" "51" "60" "02aabb" "4c03010203" "4d0100ff"
                  "4e0200000055aa" "ac" "ff"))
    raw = list(s.raw_iter())
    check_eq("raw_iter", raw, [
        (0x00, b"", 0), (0x4f, None, 1), (0x50, None, 2), (0x51, None, 3),
        (0x60, None, 4), (0x02, b"\xaa\xbb", 5), (0x4c, b"\x01\x02\x03", 8),
        (0x4d, b"\xff", 13), (0x4e, b"\x55\xaa", 17), (0xac, None, 24),
        (0xff, None, 25)])
    check("raw_iter data is plain bytes",
          all(d is None or type(d) is bytes for (_, d, _) in raw))
    cooked = list(s)
    check_eq("cooked iter", cooked, [
        0, OP_1NEGATE, OP_RESERVED, 1, 16, b"\xaa\xbb", b"\x01\x02\x03", b"\xff",
        b"\x55\xaa", OP_CHECKSIG, CScriptOp(0xff)])
    check("cooked types",
          type(cooked[0]) is int and type(cooked[1]) is CScriptOp and
          type(cooked[2]) is CScriptOp and type(cooked[3]) is int and
          type(cooked[4]) is int and type(cooked[5]) is bytes and
          type(cooked[9]) is CScriptOp)
    # rebuilding from cooked ops canonicalises pushes (PUSHDATA1/2/4 -> direct)
    check_eq("rebuild from cooked ops", bytes(CScript(cooked)),
             x("00" "4f" "50" "51" "60" "02aabb" "03010203" "01ff" "0255aa" "ac" "ff"))
    check_eq("empty script iter", (list(CScript()), list(CScript().raw_iter())), ([], []))
    # predicates
    check("is_push_only", CScript(x("004f5060")).is_push_only() and
          not CScript(x("0061")).is_push_only() and not CScript(x("4c")).is_push_only())
    check("is_valid", CScript(x("ff61")).is_valid() and not CScript(x("02aa")).is_valid())
    check("is_p2sh", CScript(P2SH_SPK).is_p2sh() and not CScript(P2PKH_SPK).is_p2sh())
    check("is_witness_scriptpubkey",
          CScript(x("0014") + b"\x01" * 20).is_witness_scriptpubkey() and
          CScript(x("0020") + b"\x01" * 32).is_witness_scriptpubkey() and
          not CScript(REDEEM).is_witness_scriptpubkey() and
          not CScript(P2SH_SPK).is_witness_scriptpubkey())


def test_scripts_truncated():
    def it(h):
        return lambda: list(CScript(x(h)).raw_iter())

    for name, h in (("PUSHDATA1", "4c"), ("PUSHDATA2", "4d"), ("PUSHDATA2", "4d01"),
                    ("PUSHDATA4", "4e"), ("PUSHDATA4", "4e010000")):
        e = check_raises("%s missing length (%s)" % (name, h), CScriptInvalidError, it(h),
                         exact=True)
        if e is not None:
            check_eq("%s missing length message" % name, str(e),
                     "%s: missing data length" % name)
    for name, h, got in (("PUSHDATA(2)", "02aa", b"\xaa"),
                         ("PUSHDATA(75)", "4b", b""),
                         ("PUSHDATA1", "4c02aa", b"\xaa"),
                         ("PUSHDATA1", "4c01", b""),
                         ("PUSHDATA2", "4d0200aa", b"\xaa"),
                         ("PUSHDATA4", "4e02000000aa", b"\xaa")):
        e = check_raises("%s truncated (%s)" % (name, h), CScriptTruncatedPushDataError,
                         it(h), exact=True)
        if e is not None:
            check_eq("%s truncated .data" % name, e.data, got)
            check_eq("%s truncated message" % name, str(e), "%s: truncated data" % name)
    check("truncated is subclass of invalid",
          issubclass(CScriptTruncatedPushDataError, CScriptInvalidError) and
          not issubclass(CScriptInvalidError, ValueError))
    # cooked iteration raises the same; valid ops before the bad one are yielded
    got = []

    def cooked():
        for op in CScript(x("51" "02aa")):
            got.append(op)
    check_raises("cooked truncated", CScriptTruncatedPushDataError, cooked)
    check_eq("ops before truncation", got, [1])
    # constructing a CScript from bad bytes never raises (validation is lazy)
    check_eq("lazy validation", bytes(CScript(x("4c"))), b"\x4c")
    check_eq("repr of truncated", repr(CScript(x("5102aa"))),
             "CScript([1, x('aa')...<ERROR: PUSHDATA(2): truncated data>])")


def test_block_header():
    genesis = x("01000000" + "00" * 32 +
                "3ba3edfd7a7b12b27ac72c3e67768f617fc81bc3888a51323a9fb8aa4b1e5e4a"
                "29ab5f49" "ffff001d" "1dac2b7c")
    check_eq("genesis length", len(genesis), 80)
    h = CBlockHeader.deserialize(genesis)
    check_eq("header fields", (h.nVersion, h.nTime, h.nBits, h.nNonce),
             (1, 1231006505, 0x1d00ffff, 2083236893))
    check_eq("header hashPrevBlock", h.hashPrevBlock, b"\x00" * 32)
    check_eq("header hashMerkleRoot", b2lx(h.hashMerkleRoot),
             "4a5e1e4baab89f3a32518a88c31bc87f618f76673e2cc77ab2127b7afdeda33b")
    check_eq("header roundtrip", h.serialize(), genesis)
    check_eq("genesis hash", b2lx(h.GetHash()),
             "000000000019d6689c085ae165831e934ff763ae46a2a6c172b3f1b60a8ce26f")
    check_eq("header GetHash == sha256d", h.GetHash(), sha256d(genesis))
    neg = CBlockHeader.deserialize(x("ffffffff") + genesis[4:])
    check_eq("header signed nVersion", neg.nVersion, -1)
    for n in (0, 3, 4, 35, 36, 79):
        check_raises("header truncated at %d" % n, SerializationTruncationError,
                     lambda n=n: CBlockHeader.deserialize(genesis[:n]))
    e = check_raises("header trailing byte", DeserializationExtraDataError,
                     lambda: CBlockHeader.deserialize(genesis + b"\x99"))
    if e is not None:
        check_eq("header padding", e.padding, b"\x99")
        check("header obj", isinstance(e.obj, CBlockHeader) and e.obj.serialize() == genesis)
    check_raises("header immutable", AttributeError, lambda: setattr(h, "nNonce", 0))


def _legacy_sighash_reference(raw_parts, hashtype):
    """Independent (byte-level) legacy sighash: sha256d(modified tx || LE32 hashtype)"""
    return sha256d(b"".join(raw_parts) + le32(hashtype))


def test_sighash_legacy():
    tx = CMutableTransaction.deserialize(LEGACY_TX)
    redeem = CScript(REDEEM)
    in0 = PREV_HASH_A + le32(0)
    in1 = PREV_HASH_B + le32(7)
    out0 = le64s(5000000000) + bytes([len(P2PKH_SPK)]) + P2PKH_SPK
    out1 = le64s(1234) + bytes([len(P2SH_SPK)]) + P2SH_SPK
    sc = bytes([len(REDEEM)]) + REDEEM
    lock = x("11223344")
    ver = x("01000000")

    # SIGHASH_ALL, input 0
    exp = _legacy_sighash_reference(
        [ver, x("02"), in0, sc, x("ffffffff"), in1, x("00"), x("feffffff"),
         x("02"), out0, out1, lock], SIGHASH_ALL)
    check_eq("sighash ALL in0", SignatureHash(redeem, tx, 0, SIGHASH_ALL), exp)
    # SIGHASH_ALL, input 1
    exp = _legacy_sighash_reference(
        [ver, x("02"), in0, x("00"), x("ffffffff"), in1, sc, x("feffffff"),
         x("02"), out0, out1, lock], SIGHASH_ALL)
    check_eq("sighash ALL in1", SignatureHash(redeem, tx, 1, SIGHASH_ALL), exp)
    # SIGHASH_NONE, input 0: no outputs, other sequences zeroed
    exp = _legacy_sighash_reference(
        [ver, x("02"), in0, sc, x("ffffffff"), in1, x("00"), x("00000000"),
         x("00"), lock], SIGHASH_NONE)
    check_eq("sighash NONE in0", SignatureHash(redeem, tx, 0, SIGHASH_NONE), exp)
    # SIGHASH_SINGLE, input 1: outputs truncated to 2, output 0 blanked
    exp = _legacy_sighash_reference(
        [ver, x("02"), in0, x("00"), x("00000000"), in1, sc, x("feffffff"),
         x("02"), x("ffffffffffffffff00"), out1, lock], SIGHASH_SINGLE)
    check_eq("sighash SINGLE in1", SignatureHash(redeem, tx, 1, SIGHASH_SINGLE), exp)
    # SIGHASH_ALL|ANYONECANPAY, input 1
    ht = SIGHASH_ALL | SIGHASH_ANYONECANPAY
    exp = _legacy_sighash_reference(
        [ver, x("01"), in1, sc, x("feffffff"), x("02"), out0, out1, lock], ht)
    check_eq("sighash ALL|ACP in1", SignatureHash(redeem, tx, 1, ht), exp)
    # OP_CODESEPARATOR is removed from the script code
    with_sep = CScript(x("ab51ab") + REDEEM[1:] + x("ab"))
    check_eq("FindAndDelete", bytes(FindAndDelete(with_sep, CScript([OP_CODESEPARATOR]))),
             x("51") + REDEEM[1:])
    # ... but 0xab inside push data is left alone
    check_eq("FindAndDelete in pushdata",
             bytes(FindAndDelete(CScript(x("02abab" "ab" "51")),
                                 CScript([OP_CODESEPARATOR]))), x("02abab51"))
    check_eq("sighash with codeseparator",
             SignatureHash(CScript(x("ab") + REDEEM), tx, 0, SIGHASH_ALL),
             SignatureHash(redeem, tx, 0, SIGHASH_ALL))
    # The tx passed in is not modified, and witness data is ignored
    check_eq("tx untouched by SignatureHash", tx.serialize(), LEGACY_TX)
    stx = CMutableTransaction.deserialize(SEGWIT_TX)
    check_eq("legacy sighash ignores witness",
             SignatureHash(redeem, stx, 0, SIGHASH_ALL),
             SignatureHash(redeem, CMutableTransaction.deserialize(SEGWIT_TX_STRIPPED),
                           0, SIGHASH_ALL))
    # Cooked error behaviour
    check_raises("sighash inIdx out of range", ValueError,
                 lambda: SignatureHash(redeem, tx, 2, SIGHASH_ALL))
    check_raises("sighash SINGLE outIdx out of range", ValueError,
                 lambda: SignatureHash(redeem, stx, 1, SIGHASH_SINGLE))
    check_eq("RawSignatureHash SINGLE bug", RawSignatureHash(redeem, stx, 1, SIGHASH_SINGLE),
             (b"\x01" + b"\x00" * 31, "outIdx 1 out of range (1)"))
    # Upstream asserts that the script is not a witness program in legacy mode
    check_raises("legacy sighash of witness program", AssertionError,
                 lambda: SignatureHash(CScript(x("0014") + b"\x01" * 20), tx, 0, SIGHASH_ALL))


def _bip143_reference(tx_version, prevouts, sequences, outputs, idx, script_code,
                      amount, locktime, hashtype):
    """Independent byte-level BIP-143 digest for SIGHASH_ALL."""
    pre = (le32(tx_version) + sha256d(b"".join(prevouts)) +
           sha256d(b"".join(sequences)) + prevouts[idx] +
           VarIntSerializer.serialize(len(script_code)) + script_code +
           le64s(amount) + sequences[idx] + sha256d(b"".join(outputs)) +
           le32(locktime) + le32(hashtype))
    return sha256d(pre)


def test_sighash_segwit():
    # BIP-143 "P2SH-P2WPKH" example
    raw = x("0100000001db6b1b20aa0fd7b23880be2ecbd4a98130974cf4748fb66092ac4d3ceb1a5477"
            "0100000000feffffff02b8b4eb0b000000001976a914a457b684d7f0d539a46a45bbc043f3"
            "5b59d0d96388ac0008af2f000000001976a914fd270b1ee6abcaea97fea7ad0402e8bd8ad6d7"
            "7c88ac92040000")
    tx = CMutableTransaction.deserialize(raw)
    sc = CScript(x("76a91479091972186c449eb1ded22b78e40d009bdf008988ac"))
    check_eq("BIP-143 P2SH-P2WPKH sighash",
             b2x(SignatureHash(sc, tx, 0, SIGHASH_ALL, 1000000000, SIGVERSION_WITNESS_V0)),
             "64f3b0f4dd2bb3aa1ce8566d220cc74dda9df97d8490cc81d89d735c92e59fb6")
    # BIP-143 "Native P2WPKH" example: intermediate hashes
    raw = x("0100000002fff7f7881a8099afa6940d42d1e7f6362bec38171ea3edf433541db4e4ad969f"
            "0000000000eeffffffef51e1b804cc89d182d279655c3aa89e815b1b309fe287d9b2b55d57b9"
            "0ec68a0100000000ffffffff02202cb206000000001976a9148280b37df378db99f66f85c95a"
            "783a76ac7a6d5988ac9093510d000000001976a9143bde42dbee7e4dbe6a21b2d50ce2f0167f"
            "aa815988ac11000000")
    tx = CMutableTransaction.deserialize(raw)
    check_eq("BIP-143 hashPrevouts",
             b2x(Hash(b"".join(i.prevout.serialize() for i in tx.vin))),
             "96b827c8483d4e9b96712b6713a7b68d6e8003a781feba36c31143470b4efd37")
    check_eq("BIP-143 hashOutputs", b2x(Hash(b"".join(o.serialize() for o in tx.vout))),
             "863ef3e1a92afbfdb97f31ad0fc7683ee943e9abcf2501590ff8f6551f47e5e5")

    # Hand-written segwit tx, long witness script (varint length > 0xfc)
    stx = CMutableTransaction.deserialize(SEGWIT_TX)
    wscript = CScript(x("51") + (x("21") + b"\x02" * 33) * 8 + x("58ae"))
    check("witness script needs 3-byte varint", len(wscript) > 0xfc)
    prevouts = [PREV_HASH_A + le32(0), PREV_HASH_B + le32(1)]
    seqs = [x("ffffffff"), x("fdffffff")]
    outs = [le64s(99999) + bytes([len(P2PKH_SPK)]) + P2PKH_SPK]
    for idx, amount in ((0, 0), (1, 2099999997690000)):
        check_eq("segwit sighash ALL in%d" % idx,
                 SignatureHash(wscript, stx, idx, SIGHASH_ALL, amount,
                               SIGVERSION_WITNESS_V0),
                 _bip143_reference(2, prevouts, seqs, outs, idx, bytes(wscript), amount,
                                   0, SIGHASH_ALL))
    # Witness presence does not influence the segwit sighash either
    check_eq("segwit sighash ignores witness data",
             SignatureHash(wscript, stx, 0, SIGHASH_ALL, 5, SIGVERSION_WITNESS_V0),
             SignatureHash(wscript, CMutableTransaction.deserialize(SEGWIT_TX_STRIPPED), 0,
                           SIGHASH_ALL, 5, SIGVERSION_WITNESS_V0))
    # OP_CODESEPARATOR is NOT stripped in segwit mode
    check("segwit keeps OP_CODESEPARATOR",
          SignatureHash(CScript(x("ab51")), stx, 0, SIGHASH_ALL, 5, SIGVERSION_WITNESS_V0) !=
          SignatureHash(CScript(x("51")), stx, 0, SIGHASH_ALL, 5, SIGVERSION_WITNESS_V0))
    # other hash types: NONE / SINGLE / ANYONECANPAY zero the relevant mid-hashes
    z = b"\x00" * 32

    def ref(idx, hp, hs, ho, ht, amount=5):
        return sha256d(le32(2) + hp + hs + prevouts[idx] +
                       VarIntSerializer.serialize(len(wscript)) + bytes(wscript) +
                       le64s(amount) + seqs[idx] + ho + le32(0) + le32(ht))
    hp, hs, ho = sha256d(b"".join(prevouts)), sha256d(b"".join(seqs)), sha256d(outs[0])
    cases = (
        ("NONE", 0, SIGHASH_NONE, hp, z, z),
        ("SINGLE in0", 0, SIGHASH_SINGLE, hp, z, ho),
        ("SINGLE in1 (no matching output)", 1, SIGHASH_SINGLE, hp, z, z),
        ("ALL|ACP", 1, SIGHASH_ALL | SIGHASH_ANYONECANPAY, z, z, ho),
        ("NONE|ACP", 1, SIGHASH_NONE | SIGHASH_ANYONECANPAY, z, z, z),
    )
    for name, idx, ht, a, b, c in cases:
        check_eq("segwit sighash %s" % name,
                 SignatureHash(wscript, stx, idx, ht, 5, SIGVERSION_WITNESS_V0),
                 ref(idx, a, b, c, ht))
    check_raises("segwit sighash without amount", struct.error,
                 lambda: SignatureHash(wscript, stx, 0, SIGHASH_ALL,
                                       sigversion=SIGVERSION_WITNESS_V0))
    check_raises("segwit sighash inIdx out of range", IndexError,
                 lambda: SignatureHash(wscript, stx, 2, SIGHASH_ALL, 5,
                                       SIGVERSION_WITNESS_V0))


def main():
    tests = [v for k, v in sorted(globals().items())
             if k.startswith("test_") and callable(v)]
    for t in tests:
        try:
            t()
        except Exception:
            _failures.append("%s crashed:\n%s" % (t.__name__, traceback.format_exc()))
    if _failures:
        print("FAILED (%d of %d checks):" % (len(_failures), _checks))
        for f in _failures:
            print("  - " + f)
        return 1
    print("OK (%d checks)" % _checks)
    return 0


if __name__ == "__main__":
    sys.exit(main())
